(* Correspondence runner for C03.

   TGroup: one untampered tlcp handshake as captured (the records of both directions) and the
   edit scripts run against the real endpoints, each with what the implementation did.
     mismatch  : the two-party model of Model/Mitm.v, instantiated with the captured messages and
                 run through the byte-level channel of Model/MitmWire.v under the same script,
                 predicts another pair of results;
     spec_code : the property on the implementation's observables alone. *)
From V Require Export Model.MitmWire.
From V Require Import Model.CodecAll Spec.PRF.
From Coq Require Import NArith List Bool.
Import ListNotations.
Local Open Scope N_scope.

Notation bs := Mitm.bytes.

Record view := mkView {
  w_vers : N; w_suite : N; w_alpn : bs; w_resumed : bool;
  w_sid : bs; w_master : bs; w_cfin : bs; w_sfin : bs }.

Record obs := mkObs {
  o_c_ok : bool; o_s_ok : bool;
  o_c_cls : N; o_s_cls : N;           (* 0 ok, 1 refused by the endpoint itself, 2 peer's alert, 3 end of transport, 4 timeout, 5 other *)
  o_direct : bool;                    (* panic or hang *)
  o_views : option (view * view * bool * bool) }.
  (* client view, server view, peer certificates are the configured ones, the endpoints sent what
     they send in the untampered handshake *)

Inductive case :=
| TGroup (suite : N) (recompute peers_ok : bool) (c2s s2c : list bs) (base : obs)
         (subs : list (N * list edit * obs))
(* dtlcp: the distinct records of the untampered run per direction; a sub-case carries, when every
   record handed to the endpoints was one of these, their indices in the order handed over
   (to the server, to the client) *)
| DGroup (suite : N) (recompute peers_ok : bool) (c2s s2c : list bs) (base : obs)
         (subs : list (N * option (list N * list N) * obs))
(* a key-holding peer sent `sent` as its verify_data where `expected` = PRF(master, label,
   SM3(transcript)) is due; accepted = the real endpoint completed *)
| FinCase (expected sent : bs) (accepted : bool).

(* ------------------------------------------------------------------ the baseline out of the capture *)
Fixpoint split_ccs (rs : list bs) : list bs * list bs :=
  match rs with
  | [] => ([], [])
  | r :: t => if hd 0 r =? 20 then ([], rs) else let '(a, c) := split_ccs t in (r :: a, c)
  end.

Definition is_ecdhe (suite : N) : bool := (suite =? 57361) || (suite =? 57425).   (* 0xe011, 0xe051 *)

Definition mk_base (suite : N) (c2s s2c : list bs) : option tbase :=
  let '(ch, cr) := split_ccs c2s in
  let '(sh, sr) := split_ccs s2c in
  match ch, cr, sr with
  | hello :: f2, [_; cfin], [_; sfin] =>
      let f1 := map (skipn 5) sh in
      Some (mkTB (skipn 5 hello) f1 (map (skipn 5) f2)
                 (match f2, sh with [], [_] => true | _, _ => false end)
                 (existsb (fun m => mtype m =? 13) f1) (is_ecdhe suite) cfin sfin)
  | _, _, _ => None
  end.

Fixpoint lists_eqb (a c : list bs) : bool :=
  match a, c with
  | [], [] => true
  | x :: a', y :: c' => bytes_eqb x y && lists_eqb a' c'
  | _, _ => false
  end.

(* ------------------------------------------------------------------ views *)
Definition zero12 (b : bs) : bool := forallb (fun x => x =? 0) b.

(* a Finished value an endpoint did not record (the server keeps only the first one) is all zero *)
Definition fin_agree (a c : bs) : bool := zero12 a || zero12 c || bytes_eqb a c.

Definition views_agree (c s : view) : bool :=
  (w_vers c =? w_vers s) && (w_suite c =? w_suite s) && bytes_eqb (w_alpn c) (w_alpn s) &&
  Bool.eqb (w_resumed c) (w_resumed s) && bytes_eqb (w_sid c) (w_sid s) &&
  bytes_eqb (w_master c) (w_master s) &&
  fin_agree (w_cfin c) (w_cfin s) && fin_agree (w_sfin c) (w_sfin s) &&
  negb (zero12 (w_cfin c)) && negb (zero12 (w_sfin c)) &&
  negb (zero12 (w_cfin s) && zero12 (w_sfin s)).

Definition view_eqb (a c : view) : bool :=
  (w_vers a =? w_vers c) && (w_suite a =? w_suite c) && bytes_eqb (w_alpn a) (w_alpn c) &&
  Bool.eqb (w_resumed a) (w_resumed c) && bytes_eqb (w_sid a) (w_sid c) &&
  bytes_eqb (w_master a) (w_master c) && bytes_eqb (w_cfin a) (w_cfin c) && bytes_eqb (w_sfin a) (w_sfin c).

(* the negotiated parameters as the ServerHello on the wire states them *)
Definition view_matches_hello (st : stack) (sh : msg) (v : view) : bool :=
  match sh_view st sh with
  | Some h => (v_vers h =? w_vers v) && (v_suite h =? w_suite v) && bytes_eqb (v_sid h) (w_sid v) &&
              bytes_eqb (v_alpn h) (w_alpn v)
  | None => false
  end.

(* both Finished values recomputed from the wire: PRF(master, label, SM3(all handshake messages
   so far, in order, as they were on the wire)) *)
Definition fin_msg (v : bs) : msg := [20; 0; 0; 12] ++ v.
Definition finished_ok (b : tbase) (v : view) : bool :=
  if tb_resumed b then
    let t0 := tb_hello b :: tb_flight1 b in
    bytes_eqb (server_verify_data (w_master v) (concat t0)) (w_sfin v) &&
    bytes_eqb (client_verify_data (w_master v) (concat (t0 ++ [fin_msg (w_sfin v)]))) (w_cfin v)
  else
    let t1 := tb_hello b :: tb_flight1 b ++ tb_flight2 b in
    bytes_eqb (client_verify_data (w_master v) (concat t1)) (w_cfin v) &&
    bytes_eqb (server_verify_data (w_master v) (concat (t1 ++ [fin_msg (w_cfin v)]))) (w_sfin v).

(* ------------------------------------------------------------------ what was handed to an endpoint (independent scan) *)
(* the edited byte stream of one direction *)
Fixpoint edited (es : list edit) (to_server : bool) (idx : nat) (held : option wrec) (rs : list wrec) : bs :=
  match rs with
  | [] => []
  | r :: t => let '(out, h) := through es to_server idx [r] held in
              concat (map wr_wire out) ++ edited es to_server (S idx) h t
  end.

Definition cut_stream (es : list edit) (to_server : bool) (s : bs) : bs :=
  match cut_for es to_server with Some n => firstn n s | None => s end.

(* records up to and including the ChangeCipherSpec: the handshake bytes before it, what follows it *)
Fixpoint scan (fuel : nat) (s : bs) (acc : bs) : option (bs * bs) :=
  match fuel with
  | O => None
  | S f =>
      match s with
      | typ :: _ :: _ :: a :: c :: rest =>
          let n := N.to_nat (a * 256 + c) in
          if Nat.ltb (length rest) n then None else
          let body := firstn n rest in let rest' := skipn n rest in
          if typ =? 22 then scan f rest' (acc ++ body)
          else if typ =? 21 then (match body with [1; _] => scan f rest' acc | _ => None end)
          else if typ =? 20 then (match body with [1] => Some (acc, rest') | _ => None end)
          else None
      | _ => None
      end
  end.

Fixpoint pop_all (fuel : nat) (hand : bs) : option (list msg) :=
  match fuel with
  | O => None
  | S f => match hand with
           | [] => Some []
           | _ => match pop hand with
                  | PMsg m rest => match pop_all f rest with Some l => Some (m :: l) | None => None end
                  | _ => None
                  end
           end
  end.

Fixpoint is_prefixb (a c : bs) : bool :=
  match a, c with
  | [], _ => true
  | x :: a', y :: c' => (x =? y) && is_prefixb a' c'
  | _, _ => false
  end.

(* the handshake messages, the ChangeCipherSpec and the sealed Finished record handed to the
   receiver of a direction are byte for byte what the untampered sender writes *)
Definition handed_ok (es : list edit) (to_server : bool) (recs : list bs) (msgs : list msg) (fin : bs) : bool :=
  let s := cut_stream es to_server (edited es to_server 0 None (map (fun w => mkWR w None) recs)) in
  match scan 200 s [] with
  | Some (hand, rest) =>
      match pop_all 64 hand with
      | Some ms => lists_eqb ms msgs && is_prefixb fin rest
      | None => false
      end
  | None => false
  end.

(* ------------------------------------------------------------------ per sub-case *)
Definition one_direction (es : list edit) : bool :=
  let dir (e : edit) := match e with
    | EFlip t _ _ _ | EDrop t _ | EDup t _ | ESwap t _ | ECut t _ | EInject t _ _ _ | ESplit t _ _ | EMerge t _ | EAppend t _ _ => t end in
  match es with
  | [] => true
  | e :: t => forallb (fun x => Bool.eqb (dir x) (dir e)) t
  end.

Definition sub_mismatch (b : tbase) (es : list edit) (o : obs) : bool :=
  let v := wire_verdict b es in
  negb (Bool.eqb (vd_c_ok v) (o_c_ok o)) || negb (Bool.eqb (vd_s_ok v) (o_s_ok o)) ||
  (one_direction es && vd_c_local v && negb (o_c_cls o =? 1)) ||
  (one_direction es && vd_s_local v && negb (o_s_cls o =? 1)) ||
  (vd_c_ok v && vd_s_ok v && negb (vd_mirror v && vd_honest v)).

(* 0 ok
   1 both completed with different views
   2 both completed with a view other than the untampered handshake's (downgrade / other session /
     other Finished values, i.e. another transcript)
   4 both completed with peer certificates other than the peer's
   5 both completed although the endpoints did not send what they send when nothing is tampered with
   6 both completed although the handshake messages / ChangeCipherSpec / Finished handed to an
     endpoint were not byte for byte those the other sent
   9 panic or hang *)
Definition sub_spec (b : tbase) (c2s s2c : list bs) (base : obs) (es : list edit) (o : obs) : N :=
  if o_direct o then 9 else
  if o_c_ok o && o_s_ok o then
    match o_views o, o_views base with
    | Some (vc, vs, peers, sent), Some (bc, bsv, _, _) =>
        if negb (views_agree vc vs) then 1
        else if negb (view_eqb vc bc && view_eqb vs bsv) then 2
        else if negb peers then 4
        else if negb sent then 5
        else if negb (handed_ok es true c2s
                        (if tb_resumed b then [tb_hello b] else tb_hello b :: tb_flight2 b) (tb_cfin b) &&
                      handed_ok es false s2c (tb_flight1 b) (tb_sfin b)) then 6
        else 0
    | _, _ => 1
    end
  else 0.

(* the baseline itself:
   21 capture not of the expected shape   22 the model's framing is not the implementation's
   3  a Finished value is not PRF(master, label, SM3(wire transcript))
   7  a view is not what the ServerHello on the wire says   1 / 4 as above *)
Definition base_spec (suite : N) (recompute peers_ok : bool) (c2s s2c : list bs) (base : obs) : N :=
  match mk_base suite c2s s2c with
  | None => 21
  | Some b =>
      if negb (let '(x, y) := honest_wire b in lists_eqb x c2s && lists_eqb y s2c) then 22 else
      match o_views base with
      | Some (vc, vs, _, _) =>
          if negb (o_c_ok base && o_s_ok base) then 21
          else if negb (views_agree vc vs) then 1
          else if negb peers_ok then 4
          else if negb (view_matches_hello ST (hd [] (tb_flight1 b)) vc && view_matches_hello ST (hd [] (tb_flight1 b)) vs) then 7
          else if recompute && negb (finished_ok b vc) then 3
          else 0
      | None => 21
      end
  end.

(* ------------------------------------------------------------------ datagram stack *)
Definition d_is_ccs (r : bs) : bool := hd 0 r =? 20.
Fixpoint d_split_ccs (rs : list bs) : list bs * list bs :=
  match rs with
  | [] => ([], [])
  | r :: t => if d_is_ccs r then ([], rs) else let '(a, c) := d_split_ccs t in (r :: a, c)
  end.

Definition mk_dbase (suite : N) (c2s s2c : list bs) : option dbase :=
  let '(ch, cr) := d_split_ccs c2s in
  let '(sh, sr) := d_split_ccs s2c in
  match ch, sh, cr, sr with
  | h0 :: h1 :: f2, hvr :: f1, [_; _], [_; _] =>
      let f1m := map (skipn 13) f1 in
      if (mtype (skipn 13 h0) =? 1) && (mtype (skipn 13 h1) =? 1) && (mtype (skipn 13 hvr) =? 3) then
        Some (mkDB (skipn 13 h0) (skipn 13 hvr) (skipn 13 h1) f1m (map (skipn 13) f2)
                   (match f2, f1 with [], [_] => true | _, _ => false end)
                   (existsb (fun m => mtype m =? 13) f1m) (is_ecdhe suite))
      else None
  | _, _, _, _ => None
  end.

(* the Finished message as a datagram endpoint writes and hashes it.  The server numbers it like
   its other messages (HelloVerifyRequest 0, ServerHello 1, ...); the client leaves the message_seq
   of its Finished at 0 (it is never checked; the Finished travels protected). *)
Definition dfin_msg (seq : N) (v : bs) : msg := [20; 0; 0; 12; seq / 256; seq mod 256; 0; 0; 0; 0; 0; 12] ++ v.

Definition dfinished_ok (b : dbase) (v : view) : bool :=
  if db_resumed b then
    let t0 := db_hello b :: db_flight1 b in
    bytes_eqb (server_verify_data (w_master v) (concat t0)) (w_sfin v) &&
    bytes_eqb (client_verify_data (w_master v) (concat (t0 ++ [dfin_msg (1 + N.of_nat (length (db_flight1 b))) (w_sfin v)]))) (w_cfin v)
  else
    let t1 := db_hello b :: db_flight1 b ++ db_flight2 b in
    bytes_eqb (client_verify_data (w_master v) (concat t1)) (w_cfin v) &&
    bytes_eqb (server_verify_data (w_master v) (concat (t1 ++ [dfin_msg 0 (w_cfin v)]))) (w_sfin v).

Definition dbase_spec (suite : N) (recompute peers_ok : bool) (c2s s2c : list bs) (base : obs) : N :=
  match mk_dbase suite c2s s2c with
  | None => 21
  | Some b =>
      match o_views base with
      | Some (vc, vs, _, _) =>
          if negb (o_c_ok base && o_s_ok base) then 21
          else if negb (views_agree vc vs) then 1
          else if negb peers_ok then 4
          else if negb (view_matches_hello SD (hd [] (db_flight1 b)) vc && view_matches_hello SD (hd [] (db_flight1 b)) vs) then 7
          else if recompute && negb (dfinished_ok b vc) then 3
          else 0
      | None => 21
      end
  end.

(* datagram sub-case, on the observables: an endpoint may discard what is damaged and take the
   retransmission, so what counts is where both end up.  The Finished values are a commitment to
   the transcript each endpoint hashed: equal to the untampered ones (the runs are deterministic)
   means that transcript. *)
(* the untampered parameters; the Finished values may differ from the untampered run's because a
   retransmission history changes the message_seq fields inside the hashed headers: they must
   agree between the two endpoints (views_agree), each being that endpoint's own computation
   over its own transcript *)
Definition view_eqb_params (a c : view) : bool :=
  (w_vers a =? w_vers c) && (w_suite a =? w_suite c) && bytes_eqb (w_alpn a) (w_alpn c) &&
  Bool.eqb (w_resumed a) (w_resumed c) && bytes_eqb (w_sid a) (w_sid c) &&
  bytes_eqb (w_master a) (w_master c).

Definition dsub_spec (base : obs) (o : obs) : N :=
  if o_direct o then 9 else
  if o_c_ok o && o_s_ok o then
    match o_views o, o_views base with
    | Some (vc, vs, peers, sent), Some (bc, bsv, _, _) =>
        if negb (views_agree vc vs) then 1
        else if negb (view_eqb_params vc bc && view_eqb_params vs bsv) then 2
        else if negb peers then 4
        else if negb sent then 5
        else 0
    | _, _ => 1
    end
  else 0.

(* The trace model has no clock.  An endpoint that the model sees complete on the records it was
   handed, while the implementation keeps waiting until the network gives up, is a liveness defect
   of the retransmission logic (code 10 below), not a disagreement about what is accepted; a
   disagreement is: the implementation completes where the model does not, or refuses by itself
   where the model completes. *)
Definition dsub_mismatch (b : dbase) (c2s s2c : list bs) (tr : option (list N * list N)) (o : obs) : bool :=
  match tr with
  | None => false
  | Some (to_s, to_c) =>
      let '(c, s) := d_trace_verdict b c2s s2c to_s to_c in
      (o_c_ok o && negb c) || (o_s_ok o && negb s) ||
      (c && negb (o_c_ok o) && (o_c_cls o =? 1)) || (s && negb (o_s_ok o) && (o_s_cls o =? 1))
  end.

(* 10: every record handed to an endpoint was one the peer sent in the untampered handshake, the
   records it needed did arrive (the model completes on them), and it never completes *)
Definition dsub_stuck (b : dbase) (c2s s2c : list bs) (tr : option (list N * list N)) (o : obs) : bool :=
  match tr with
  | None => false
  | Some (to_s, to_c) =>
      let '(c, s) := d_trace_verdict b c2s s2c to_s to_c in
      (c && negb (o_c_ok o) && negb (o_c_cls o =? 1)) || (s && negb (o_s_ok o) && negb (o_s_cls o =? 1))
  end.

(* 11: an endpoint completed although no ChangeCipherSpec record was among the records handed to it *)
Definition has_ccs (recs : list bs) (idxs : list N) : bool :=
  existsb (fun i => hd 0 (nth (N.to_nat i) recs []) =? 20) idxs.
Definition dsub_no_ccs (c2s s2c : list bs) (tr : option (list N * list N)) (o : obs) : bool :=
  match tr with
  | None => false
  | Some (to_s, to_c) => (o_c_ok o && negb (has_ccs s2c to_c)) || (o_s_ok o && negb (has_ccs c2s to_s))
  end.

Definition eval_case (c : case) : list N * list (N * N) :=
  match c with
  | TGroup suite recompute peers_ok c2s s2c base subs =>
      let first := match subs with (i, _, _) :: _ => i | [] => 0 end in
      (* the baseline is judged once per configuration, in the group that carries its untampered re-run *)
      let bcode := if recompute then base_spec suite recompute peers_ok c2s s2c base else
                   match mk_base suite c2s s2c with Some _ => 0 | None => 21 end in
      match mk_base suite c2s s2c with
      | None => ([first], [(first, bcode)])
      | Some b =>
          let base_mism := negb (let v := wire_verdict b [] in vd_c_ok v && vd_s_ok v && vd_mirror v && vd_honest v) in
          let mism := map (fun x => fst (fst x)) (filter (fun x => sub_mismatch b (snd (fst x)) (snd x)) subs) in
          let bad := filter (fun x => negb (snd x =? 0))
                            (map (fun x => (fst (fst x), sub_spec b c2s s2c base (snd (fst x)) (snd x))) subs) in
          ((if base_mism then [first] else []) ++ mism,
           (if bcode =? 0 then [] else [(first, bcode)]) ++ bad)
      end
  | FinCase _ _ _ => ([], [])
  | DGroup suite recompute peers_ok c2s s2c base subs =>
      let first := match subs with (i, _, _) :: _ => i | [] => 0 end in
      let bcode := if recompute then dbase_spec suite recompute peers_ok c2s s2c base else
                   match mk_dbase suite c2s s2c with Some _ => 0 | None => 21 end in
      match mk_dbase suite c2s s2c with
      | None => ([first], [(first, bcode)])
      | Some b =>
          let mism := map (fun x => fst (fst x)) (filter (fun x => dsub_mismatch b c2s s2c (snd (fst x)) (snd x)) subs) in
          let bad := filter (fun x => negb (snd x =? 0))
                            (map (fun x => (fst (fst x),
                                            let code := dsub_spec base (snd x) in
                                            if negb (code =? 0) then code
                                            else if dsub_no_ccs c2s s2c (snd (fst x)) (snd x) then 11
                                            else if dsub_stuck b c2s s2c (snd (fst x)) (snd x) then 10 else 0)) subs) in
          (mism, (if bcode =? 0 then [] else [(first, bcode)]) ++ bad)
      end
  end.

(* the model accepts a Finished iff its verify_data is the expected one (Model/Mitm.v chs_step /
   shs_step: bytes_eqb v (fin_value ..)); 8: completed on another verify_data *)
Definition eval_fin (i : N) (expected sent : bs) (accepted : bool) : list N * list (N * N) :=
  ((if Bool.eqb accepted (bytes_eqb sent expected) then [] else [i]),
   (if accepted && negb (bytes_eqb sent expected) then [(i, 8)] else [])).

Definition evaluate (cs : list (N * case)) : list N * list (N * N) :=
  fold_right (fun x acc =>
                let '(m, b) := match snd x with
                               | FinCase e s a => eval_fin (fst x) e s a
                               | c => eval_case c
                               end in
                (m ++ fst acc, b ++ snd acc)) ([], []) cs.
