(* Correspondence runner for C02. *)
From V Require Export Model.Auth.
From Coq Require Import NArith.

Inductive case :=
| FullCase (insecure : bool) (v : server_view) (accepted complete_reported delivered : bool)
| ResumeCase (insecure : bool) (r : resume_view) (offered accepted resumed delivered : bool).

Definition mismatch (c : case) : bool :=
  match c with
  | FullCase ins v acc _ _ => negb (Bool.eqb (client_full_accepts (mkCC ins) v) acc)
  | ResumeCase ins r offered acc resumed _ =>
      (* the session is offered iff it re-validates; when offered and echoed with a right Finished it completes *)
      negb (Bool.eqb (client_offers_session (mkCC ins) r) offered) ||
      (offered && negb (Bool.eqb (client_resume_accepts (mkCC ins) r) acc))
  end.

(* property level (independent of the decision function): a completed handshake with a verifying
   client needs both chains, a present, well-formed and valid signature, and a correct Finished;
   a client that did not complete must neither report completion nor deliver data *)
Definition spec_code (c : case) : N :=
  match c with
  | FullCase ins v acc comp deliv =>
      if acc then
        if Nat.ltb (sv_ncerts v) 2 then 1%N                                    (* fewer than two certificates *)
        else if negb ins && negb (sv_chain_sig v && sv_chain_enc v) then 2%N   (* chain / validity / name not verified *)
        else if negb (sv_skx_present v) then 3%N                               (* signed key exchange omitted *)
        else if negb (sv_sig_ok v) then 4%N                                    (* signature not valid for this handshake *)
        else if negb (sv_fin_ok v) then 5%N                                    (* Finished not checked *)
        else 0%N
      else if comp || deliv then 6%N                                           (* refused but completion reported / data delivered *)
      else 0%N
  | ResumeCase ins r offered acc resumed deliv =>
      if acc && resumed && negb ins && negb (rv_sess_chain_ok r) then 7%N      (* resumed a session whose certificates fail now *)
      else if acc && negb (rv_fin_ok r) then 8%N                               (* completed with a peer whose Finished is not computed from the session's master secret *)
      else if negb acc && deliv then 6%N
      else 0%N
  end.

Definition mismatches (cs : list (N * case)) : list N :=
  map fst (filter (fun x => mismatch (snd x)) cs).
Definition spec_violations (cs : list (N * case)) : list (N * N) :=
  filter (fun x => negb (N.eqb (snd x) 0)) (map (fun x => (fst x, spec_code (snd x))) cs).
Definition evaluate (cs : list (N * case)) : list N * list (N * N) :=
  (mismatches cs, spec_violations cs).
