(* Correspondence runner for C19: the event trace of the real endpoints on the virtual-time
   network against the trace the simulator (Model/DSim.v) produces for the same fault script. *)
From V Require Export Model.DSim.

Inductive case :=
| FaultCase (c : cfg) (fs : list fault) (cok sok agree pong ping : bool) (tr : list (N * ev))
| TraceCase (c : cfg) (fs : list fault) (cok sok agree pong ping : bool) (tr : list (N * ev))
(* a path MTU below the size of a flight: the flights span several datagrams, which the
   discrete-event model (one datagram per flight) does not describe; one datagram is lost or
   delayed and only the outcome is judged *)
| SplitFlightCase (cok sok agree pong ping : bool).
    (* more faults than the property speaks about (the application's patience may be exhausted):
       only the trace is compared with the model, and the clauses that hold for every script *)

(* ---- decidable equality of traces *)
Definition msg_eqb (a b : msg) : bool :=
  match a, b with
  | CH0, CH0 | CH1, CH1 | HVR, HVR | SH, SH | CERT, CERT | SKX, SKX | CR, CR | SHD, SHD | CKX, CKX | CV, CV | FIN, FIN => true
  | _, _ => false
  end.
Definition body_eqb (a b : body) : bool :=
  match a, b with
  | BHs m s, BHs m' s' => msg_eqb m m' && (s =? s')
  | BCcs, BCcs | BEnc, BEnc | BApp, BApp | BAlert, BAlert | BFrag, BFrag | BOther, BOther => true
  | _, _ => false
  end.
Definition rec_eqb (a b : rec) : bool :=
  match a, b with
  | mkRec e s x, mkRec e' s' x' => (e =? e') && (s =? s') && body_eqb x x'
  | Rbad, Rbad => true
  | _, _ => false
  end.
Fixpoint list_eqb {A} (f : A -> A -> bool) (a b : list A) : bool :=
  match a, b with
  | [], [] => true
  | x :: a', y :: b' => f x y && list_eqb f a' b'
  | _, _ => false
  end.
Definition nact_eqb (a b : nact) : bool :=
  match a, b with
  | Ndeliver, Ndeliver | Ndup, Ndup | Nlate, Nlate | Ndrop, Ndrop | Nhold, Nhold => true
  | _, _ => false
  end.
Definition ev_eqb (a b : ev) : bool :=
  match a, b with
  | ESend s i d, ESend s' i' d' => side_eqb s s' && (i =? i') && list_eqb rec_eqb d d'
  | ENet x s i, ENet x' s' i' => nact_eqb x x' && side_eqb s s' && (i =? i')
  | EExpire s, EExpire s' | EGot s, EGot s' | EOther s, EOther s' => side_eqb s s'
  | EDone s o, EDone s' o' => side_eqb s s' && Bool.eqb o o'
  | _, _ => false
  end.
Definition tev_eqb (a b : N * ev) : bool := (fst a =? fst b) && ev_eqb (snd a) (snd b).

Definition model_trace (c : case) : list (N * ev) :=
  match c with
  | FaultCase cf fs _ _ _ _ _ _ | TraceCase cf fs _ _ _ _ _ _ => sim_trace cf fs
  | SplitFlightCase _ _ _ _ _ => []
  end.

Definition mismatch (c : case) : bool :=
  match c with
  | FaultCase cf fs cok sok agree pong ping tr
  | TraceCase cf fs cok sok agree pong ping tr =>
      let '(n, finished) := simulate cf fs in
      negb (finished && list_eqb tev_eqb (rev (trace n)) tr &&
            Bool.eqb cok (complete (cl n)) && Bool.eqb sok (complete (sv n)))
  | SplitFlightCase _ _ _ _ _ => false
  end.

(* index of the first event on which the traces differ (debugging aid) *)
Fixpoint first_diff (i : N) (a b : list (N * ev)) : option N :=
  match a, b with
  | [], [] => None
  | x :: a', y :: b' => if tev_eqb x y then first_diff (i + 1) a' b' else Some i
  | _, _ => Some i
  end.

(* ---- the property, on what the implementation did (predicates: Model/DSim.v) *)
(* 1 a fault-free handshake needed a retransmission timeout; 2 an endpoint did not complete;
   3 both completed but disagree on the negotiated parameters; 4 application data did not flow
   in both directions; 5 completion later than the retransmission schedule allows;
   6 application data delivered before the handshake of that endpoint was complete *)
Definition spec_code (c : case) : N :=
  match c with
  | FaultCase cf fs cok sok agree pong ping tr =>
      if got_before_done false false tr then 6
      else if negb (cok && sok) then 2
      else if negb agree then 3
      else if negb (pong && ping) then 4
      else if match fs with [] => expiry_before_done false false tr | _ => false end then 1
      else if late Cl fs tr || late Sv fs tr then 5
      else 0
  | TraceCase cf fs cok sok agree pong ping tr =>
      if got_before_done false false tr then 6
      else if cok && sok && negb agree then 3
      else 0
  | SplitFlightCase cok sok agree pong ping =>
      if negb (cok && sok) then 2
      else if negb agree then 3
      else if negb (pong && ping) then 4
      else 0
  end.

Definition mismatches (cs : list (N * case)) : list N :=
  map fst (filter (fun x => mismatch (snd x)) cs).
Definition spec_violations (cs : list (N * case)) : list (N * N) :=
  filter (fun x => negb (N.eqb (snd x) 0)) (map (fun x => (fst x, spec_code (snd x))) cs).
Definition evaluate (cs : list (N * case)) : list N * list (N * N) :=
  (mismatches cs, spec_violations cs).
