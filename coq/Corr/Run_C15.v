(* Correspondence runner for C15. *)
From V Require Export Model.RecordD.
Open Scope Z_scope.

Inductive case :=
| WriteToCase (pmtu : Z) (m : mode) (n : Z) (dgrams recv : list Z) (intact : bool) (ret : Z)
| WriteCase (pmtu : Z) (m : mode) (n : Z) (dgrams recv : list Z) (intact : bool) (ret : Z)
| HsCase (pmtu : Z) (m : mode) (cd sd : list Z) (ok : bool)
| ExtraCase (extra : Z)
(* Write / Read with read buffers smaller than a record: the bytes read are the bytes written, complete and in order *)
| ShortReadCase (pmtu bufsz total : Z) (intact : bool).

Fixpoint zl_eqb (a b : list Z) : bool :=
  match a, b with
  | [], [] => true
  | x :: a', y :: b' => (x =? y) && zl_eqb a' b'
  | _, _ => false
  end.

Definition mismatch (c : case) : bool :=
  match c with
  | WriteToCase pmtu m n dg rv intact ret =>
      negb (zl_eqb (write_datagrams pmtu m n) dg && (ret =? n) && intact &&
            zl_eqb rv (write_chunks n (max_payload pmtu m)))
  | WriteCase pmtu m n dg rv intact ret =>      (* Read skips empty records *)
      negb (zl_eqb (write_datagrams pmtu m n) dg && (ret =? n) && intact &&
            zl_eqb rv (filter (fun c => 0 <? c) (write_chunks n (max_payload pmtu m))))
  | HsCase _ _ _ _ ok => negb ok
  | ExtraCase _ => true
  | ShortReadCase _ _ _ intact => negb intact
  end.

(* property level, independent of max_payload: a payload that CAN travel in one record within
   the path MTU (record_len <= pmtu, at most 16384 bytes) must be exactly one datagram and one
   ReadFrom; every datagram must respect the path MTU; every piece at most 16384 bytes; the
   peer receives the bytes complete and in order. *)
Definition spec_code (c : case) : N :=
  match c with
  | WriteToCase pmtu m n dg rv intact ret =>
      if (n =? 0) && negb (zl_eqb dg [record_len m 0] && zl_eqb rv [0]) then 4%N          (* empty payload: exactly one datagram, one empty ReadFrom *)
      else if (0 <? n) && (record_len m n <=? eff_pmtu pmtu) && (n <=? max_plaintext) &&
              negb (zl_eqb dg [record_len m n] && zl_eqb rv [n]) then 1%N
      else if existsb (fun d => eff_pmtu pmtu <? d) dg then 2%N
      else if existsb (fun r => max_plaintext <? r) rv then 3%N
      else if negb intact || negb (ret =? n) then 5%N
      else 0%N
  | WriteCase pmtu m n dg rv intact ret =>
      if existsb (fun d => eff_pmtu pmtu <? d) dg then 2%N
      else if existsb (fun r => max_plaintext <? r) rv then 3%N
      else if negb intact || negb (ret =? n) then 5%N
      else 0%N
  | HsCase pmtu m cd sd ok =>
      if negb ok then 7%N
      else if existsb (fun d => eff_pmtu pmtu <? d) (cd ++ sd) then 6%N   (* flight / handshake datagram above the path MTU (K3) *)
      else 0%N
  | ExtraCase _ => 8%N
  | ShortReadCase _ _ _ intact => if intact then 0%N else 5%N
  end.

Definition mismatches (cs : list (N * case)) : list N :=
  map fst (filter (fun x => mismatch (snd x)) cs).
Definition spec_violations (cs : list (N * case)) : list (N * N) :=
  filter (fun x => negb (N.eqb (snd x) 0)) (map (fun x => (fst x, spec_code (snd x))) cs).
Definition evaluate (cs : list (N * case)) : list N * list (N * N) :=
  (mismatches cs, spec_violations cs).
