(* Correspondence runner for C14 (handshake message codecs of tlcp and dtlcp). *)
From V Require Export Model.Codec Model.CodecT Model.CodecD Model.CodecSpec Model.CodecAll.
Open Scope N_scope.

(* run-length helper for the case printer: long runs of one byte are written rep b n *)
Definition rep (b n : N) : bytes := repeat b (N.to_nat n).

Inductive outcome := OOk | ORej | OPanic.

Inductive case :=
(* unmarshal(input): outcome; when accepted: header fields (dtlcp), fields, marshal after raw = nil.
   captured = the input is a message the library itself emitted in a handshake *)
| Dec (st : stack) (m : mt) (captured : bool) (input : bytes)
      (o : outcome) (h : dh) (f : fields) (re : option bytes)
(* marshal(h, f) = enc; unmarshal(enc): outcome, header fields, fields *)
| Enc (st : stack) (m : mt) (h : dh) (f : fields) (enc : option bytes)
      (o2 : outcome) (h2 : dh) (f2 : fields)
(* datagram stack: a message decoded from input (accepted = ok) is given message_seq seq and
   encoded: a1 with the decoder's cached encoding in place, a2 after it had been encoded once from
   its fields.  Both must be input with the two message_seq bytes replaced. *)
| Reseq (m : mt) (input : bytes) (seq : N) (ok : bool) (a1 a2 : option bytes).

(* ---------- equality tests ---------- *)
Fixpoint bytes_eqb (a b : bytes) : bool :=
  match a, b with
  | [], [] => true
  | x :: a', y :: b' => N.eqb x y && bytes_eqb a' b'
  | _, _ => false
  end.
Fixpoint lbytes_eqb (a b : list bytes) : bool :=
  match a, b with
  | [], [] => true
  | x :: a', y :: b' => bytes_eqb x y && lbytes_eqb a' b'
  | _, _ => false
  end.
Definition obytes_eqb (a b : option bytes) : bool :=
  match a, b with Some x, Some y => bytes_eqb x y | None, None => true | _, _ => false end.
Definition dh_eqb (a b : dh) : bool :=
  (dh_seq a =? dh_seq b) && (dh_off a =? dh_off b) && (dh_flen a =? dh_flen b).
Fixpoint tas_eqb (a b : list ta) : bool :=
  match a, b with
  | [], [] => true
  | x :: a', y :: b' => (ta_type x =? ta_type y) && bytes_eqb (ta_id x) (ta_id y) && tas_eqb a' b'
  | _, _ => false
  end.
Definition sh_eqb (a b : shello) : bool :=
  (sh_vers a =? sh_vers b) && bytes_eqb (sh_random a) (sh_random b) && bytes_eqb (sh_sid a) (sh_sid b) &&
  (sh_suite a =? sh_suite b) && (sh_comp a =? sh_comp b) && Bool.eqb (sh_ocsp a) (sh_ocsp b) &&
  bytes_eqb (sh_ocsp_resp a) (sh_ocsp_resp b) && bytes_eqb (sh_alpn a) (sh_alpn b) && Bool.eqb (sh_ack a) (sh_ack b).
(* everything but supported groups / signature algorithms *)
Definition ch_eqb_but16 (a b : chello) : bool :=
  (ch_vers a =? ch_vers b) && bytes_eqb (ch_random a) (ch_random b) && bytes_eqb (ch_sid a) (ch_sid b) &&
  bytes_eqb (ch_cookie a) (ch_cookie b) && bytes_eqb (ch_suites a) (ch_suites b) && bytes_eqb (ch_comp a) (ch_comp b) &&
  bytes_eqb (ch_sni a) (ch_sni b) && tas_eqb (ch_tas a) (ch_tas b) && Bool.eqb (ch_ocsp a) (ch_ocsp b) &&
  lbytes_eqb (ch_alpn a) (ch_alpn b) && bytes_eqb (ch_cid a) (ch_cid b).
Definition ch_eqb16 (a b : chello) : bool :=
  bytes_eqb (ch_curves a) (ch_curves b) && bytes_eqb (ch_sigalgs a) (ch_sigalgs b).
Definition fields_eqb (a b : fields) : bool :=
  match a, b with
  | FNone, FNone => true
  | FBlob x, FBlob y => bytes_eqb x y
  | FCert x, FCert y => lbytes_eqb x y
  | FCReq t c, FCReq t' c' => bytes_eqb t t' && lbytes_eqb c c'
  | FHVR v c, FHVR v' c' => (v =? v') && bytes_eqb c c'
  | FSH x, FSH y => sh_eqb x y
  | FCH x, FCH y => ch_eqb_but16 x y && ch_eqb16 x y
  | _, _ => false
  end.

(* ---------- model versus implementation ---------- *)
Definition same_dec (r : res (dh * fields)) (o : outcome) (h : dh) (f : fields) : bool :=
  match r, o with
  | Ok (h', f'), OOk => dh_eqb h h' && fields_eqb f f'
  | Reject, ORej => true
  | Panic _, OPanic => true
  | _, _ => false
  end.

Definition renumbered (input : bytes) (seq : N) : bytes :=
  firstn 4 input ++ [seq / 256; seq mod 256] ++ skipn 6 input.
Definition reseq_bad (input : bytes) (seq : N) (ok : bool) (a1 a2 : option bytes) : bool :=
  ok && negb (obytes_eqb a1 (Some (renumbered input seq)) && obytes_eqb a2 (Some (renumbered input seq))).

Definition mismatch (c : case) : bool :=
  match c with
  | Reseq _ input seq ok a1 a2 => reseq_bad input seq ok a1 a2
  | Dec st m _ input o h f re =>
      negb (same_dec (decode st m input) o h f &&
            match o with OOk => obytes_eqb re (encode st m h f) | _ => true end)
  | Enc st m h f enc o2 h2 f2 =>
      negb (obytes_eqb enc (encode st m h f) &&
            match enc with Some e => same_dec (decode st m e) o2 h2 f2 | None => true end)
  end.

(* ---------- the property, on what the implementation did ---------- *)
(* boolean well-formedness of generated field values (ranges of the standard's vectors) *)
Definition blobb (n : N) (b : bytes) : bool := bytes_okb b && (len b <? n).
Definition wf_tab (t : ta) : bool :=
  bytes_okb (ta_id t) &&
  (((ta_type t =? 0) && empty (ta_id t)) || (((ta_type t =? 4) || (ta_type t =? 5)) && (len (ta_id t) =? 32)) ||
   ((ta_type t =? 2) && (len (ta_id t) <? 65536))).
Definition wfb (st : stack) (m : mt) (h : dh) (f : fields) : bool :=
  (dh_seq h <? 65536) && (dh_off h =? 0) && (dh_flen h =? 0) &&
  match m, f with
  | mFIN, FBlob b => blobb (match st with ST => 16777216 | SD => 65537 end) b
  | mSKX, FBlob b | mCKX, FBlob b => blobb 16777216 b
  | mCV, FBlob b => blobb 65536 b
  | mSHD, FNone => true
  | mCERT, FCert cs => forallb (fun c => bytes_okb c && (1 <=? len c)) cs && (len (certs_enc cs) + 3 <? 16777216)
  | mCREQ, FCReq t cas => bytes_okb t && (1 <=? len t) && (len t <? 256) &&
                          forallb (fun c => blobb 65536 c) cas && (len (cas_enc cas) <? 65536)
  | mHVR, FHVR v c => (v <? 65536) && blobb 256 c
  | mSH, FSH x => (sh_vers x <? 65536) && bytes_okb (sh_random x) && (len (sh_random x) =? 32) && blobb 256 (sh_sid x) &&
                  (sh_suite x <? 65536) && (sh_comp x <? 256) && Bool.eqb (sh_ocsp x) (negb (empty (sh_ocsp_resp x))) &&
                  blobb 65532 (sh_ocsp_resp x) && blobb 256 (sh_alpn x) && (len (sh_exts_enc x) <? 65536)
  | mCH, FCH x => (ch_vers x <? 65536) && bytes_okb (ch_random x) && (len (ch_random x) =? 32) && blobb 256 (ch_sid x) &&
                  blobb 256 (ch_cookie x) && (match st with ST => empty (ch_cookie x) | SD => true end) &&
                  forallb (fun v => v <? 65536) (ch_suites x) && (2 * len (ch_suites x) <? 65536) && blobb 256 (ch_comp x) &&
                  blobb 65531 (ch_sni x) && negb (ends_with_dot (ch_sni x)) && forallb wf_tab (ch_tas x) &&
                  forallb (fun v => v <? 65536) (ch_curves x) && forallb (fun v => v <? 65536) (ch_sigalgs x) &&
                  forallb (fun p => bytes_okb p && (1 <=? len p) && (len p <? 256)) (ch_alpn x) && blobb 65534 (ch_cid x) &&
                  (len (flat_map enc_ta (ch_tas x)) <? 65534) && (2 * len (ch_curves x) <? 65534) &&
                  (2 * len (ch_sigalgs x) <? 65534) && (len (flat_map vec8 (ch_alpn x)) <? 65534) &&
                  (len (ch_exts_enc x) <? 65536)
  | _, _ => false
  end.

(* the supported groups / signature algorithms a dtlcp ClientHello carries on the wire, read
   with the independent extension walker of CodecSpec.v: the 16-bit values of the last extension
   of type t (a later extension of one type replaces an earlier one in dtlcp), none if absent.
   Stated without the model's decoder. *)
Definition wire16 (t : N) (bs : bytes) : option (list N) :=
  match ch_ext_block true (body_of SD bs) with
  | None => Some []
  | Some blk =>
      match rev (filter (fun e => fst e =? t) (ext_list (length blk) blk)) with
      | [] => Some []
      | (_, d) :: _ => match cut 2 d with Some (v, _) => rd_u16s v | None => None end
      end
  end.
Definition olist_eqb (a : option (list N)) (b : list N) : bool :=
  match a with Some l => bytes_eqb l b | None => false end.
Definition wire16_kept (bs : bytes) (f : fields) : bool :=
  match f with
  | FCH y => olist_eqb (wire16 extSupportedGroups bs) (ch_curves y) &&
             olist_eqb (wire16 extSignatureAlgorithms bs) (ch_sigalgs y)
  | _ => false
  end.

(* codes: 1 round trip lost or changed a field; 2 canonical input re-encodes differently;
   3 accepted input with trailing bytes / inner length disagreeing (header length field right);
   4 panic; 5 accepted although the header length field disagrees with the size;
   6 accepted although the dtlcp fragment fields do not describe a whole message;
   7 a message the library emitted is rejected; 8 accepted input without ignored parts but in a
   form the library never emits re-encodes differently (K4);
   9 dtlcp ClientHello: the decoded supported groups / signature algorithms differ from the
   values on the wire (K6, fixed in fe30aba: must never fire) *)
Definition spec_code (c : case) : N :=
  match c with
  | Reseq _ input seq ok a1 a2 => if reseq_bad input seq ok a1 a2 then 10 else 0
  | Dec st m captured input o h f re =>
      match o with
      | OPanic => 4
      | ORej => if captured then 7 else 0
      | OOk =>
          if negb (outer_ok st input) then 5
          else if match st with SD => negb (frag_whole input) | ST => false end then 6
          else if negb (strict st m input) then 3
          else if match st, m with SD, mCH => negb (wire16_kept input f) | _, _ => false end then 9
          else if obytes_eqb re (Some input) then 0
          else if negb (type_ok (mt_type m) input) then 0
          else if canonical st m input then 2
          else if no_ignored st m input then 8
          else 0
      end
  | Enc st m h f enc o2 h2 f2 =>
      if negb (wfb st m h f) then 0 else
      match enc, o2 with
      | None, _ => 1
      | Some _, OPanic => 4
      | Some _, ORej => 1
      | Some e, OOk =>
          (* header fields: message_seq kept, offset 0, fragment_length = body length (0 stored
             means "whole message"; serverHelloDone has an empty body) *)
          let hdr_ok := match st with
                        | ST => true
                        | SD => (dh_seq h2 =? dh_seq h) && (dh_off h2 =? 0) && (dh_flen h2 =? len e - 12)
                        end in
          if negb hdr_ok then 1
          else match f, f2 with
               | FCH x, FCH y => if negb (ch_eqb_but16 x y) then 1 else if ch_eqb16 x y then 0
                                 else match st with SD => 9 | ST => 1 end
               | _, _ => if fields_eqb f f2 then 0 else 1
               end
      end
  end.

Definition mismatches (cs : list (N * case)) : list N :=
  map fst (filter (fun x => mismatch (snd x)) cs).
Definition spec_violations (cs : list (N * case)) : list (N * N) :=
  filter (fun x => negb (N.eqb (snd x) 0)) (map (fun x => (fst x, spec_code (snd x))) cs).

Definition evaluate (cs : list (N * case)) : list N * list (N * N) :=
  (mismatches cs, spec_violations cs).
