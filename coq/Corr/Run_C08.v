(* Correspondence runner for C08 (stream stack). *)
From V Require Export Model.Handshake Model.DHandshake.
From Coq Require Import NArith.

Inductive role := RClient | RServer.
Inductive case :=
| SeqCase (r : role) (ecdhe offered certreq : bool) (evs : list ev) (accepted : bool)
| DSeqCase (r : role) (ecdhe offered certreq : bool) (evs : list dev) (accepted : bool)
(* the same events played by a peer that follows the sequence as if it were legal (its
   ChangeCipherSpec always switches to the keys it has): only a completion counts, because after a
   ChangeCipherSpec the endpoint ignored it can no longer read that peer *)
| DSeqCoop (r : role) (ecdhe offered certreq : bool) (evs : list dev) (accepted : bool).

Definition model_accepts (c : case) : bool :=
  match c with
  | SeqCase RClient ecdhe offered _ evs _ => caccepts (mkCP ecdhe offered) evs
  | SeqCase RServer _ _ certreq evs _ => saccepts (mkSP certreq) evs
  | DSeqCase RClient ecdhe offered _ evs _ => dcaccepts (mkCP ecdhe offered) evs
  | DSeqCase RServer _ _ certreq evs _ => dsaccepts (mkSP certreq) evs
  | DSeqCoop RClient ecdhe offered _ evs _ => dcaccepts (mkCP ecdhe offered) evs
  | DSeqCoop RServer _ _ certreq evs _ => dsaccepts (mkSP certreq) evs
  end.

Definition legal (c : case) : bool :=
  match c with
  | SeqCase RClient ecdhe offered _ evs _ => clegal (mkCP ecdhe offered) evs
  | SeqCase RServer _ _ certreq evs _ => slegal (mkSP certreq) evs
  | DSeqCase RClient ecdhe offered _ evs _ => dclegal (mkCP ecdhe offered) evs
  | DSeqCase RServer _ _ certreq evs _ => dslegal (mkSP certreq) evs
  | DSeqCoop RClient ecdhe offered _ evs _ => dclegal (mkCP ecdhe offered) evs
  | DSeqCoop RServer _ _ certreq evs _ => dslegal (mkSP certreq) evs
  end.

Definition accepted_of (c : case) : bool := match c with SeqCase _ _ _ _ _ a | DSeqCase _ _ _ _ _ a | DSeqCoop _ _ _ _ _ a => a end.

Definition mismatch (c : case) : bool :=
  match c with
  | DSeqCoop _ _ _ _ _ a => a && negb (model_accepts c)
  | _ => negb (Bool.eqb (model_accepts c) (accepted_of c))
  end.

(* does a dropped (old-epoch / replayed) record follow the ChangeCipherSpec? *)
Fixpoint old_after_ccs (seen_ccs : bool) (es : list dev) : bool :=
  match es with
  | [] => false
  | DCcs :: t => old_after_ccs true t
  | DOld :: t => seen_ccs || old_after_ccs seen_ccs t
  | _ :: t => old_after_ccs seen_ccs t
  end.

(* property level: the implementation's verdict against the standard's language itself
   1 = completed on an order the standard does not allow; 2 = refused a legal flow;
   3 = refused a legal datagram flow in which an old-epoch record arrived after the
       ChangeCipherSpec (finding F12: it is decrypted with the new keys before the epoch check) *)
Definition spec_code (c : case) : N :=
  if accepted_of c && negb (legal c) then 1%N
  else if negb (accepted_of c) && legal c then
    match c with
    | DSeqCase _ _ _ _ evs _ => if old_after_ccs false evs then 3%N else 2%N
    | DSeqCoop _ _ _ _ _ _ => 0%N
    | _ => 2%N
    end
  else 0%N.

Definition mismatches (cs : list (N * case)) : list N :=
  map fst (filter (fun x => mismatch (snd x)) cs).
Definition spec_violations (cs : list (N * case)) : list (N * N) :=
  filter (fun x => negb (N.eqb (snd x) 0)) (map (fun x => (fst x, spec_code (snd x))) cs).
Definition evaluate (cs : list (N * case)) : list N * list (N * N) :=
  (mismatches cs, spec_violations cs).
