(* Correspondence runner for C05. *)
From V Require Export Model.RecordAttack.
From Coq Require Import NArith.

Inductive mode := MGcm | MCbc.
Inductive case :=
| AttackCase (m : mode) (gs : list grec) (stream delivered : list byte) (e : ending) (latched modified : bool).

Definition ending_eqb (a b : ending) : bool :=
  match a, b with
  | EndEOF, EndEOF | EndUnexpectedEOF, EndUnexpectedEOF | EndRemoteFatal, EndRemoteFatal
  | EndTooManyIgnored, EndTooManyIgnored | EndOutOfFuel, EndOutOfFuel => true
  | EndAlert x, EndAlert y => N.eqb x y
  | _, _ => false
  end.

Definition mismatch (c : case) : bool :=
  match c with
  | AttackCase m gs stream delivered e latched _ =>
      let '(d, e') := receive_all gs stream in
      negb (bytes_eqb d delivered && ending_eqb e e' && latched)
  end.

(* property level, without the receiver model: what was delivered must be the application
   payloads of the sender's records that sit intact and in order at the start of the stream
   (independent scan below), followed by an error that stays; for CBC every damage is
   answered by bad_record_mac *)
Fixpoint is_prefixb (a b : list byte) : bool :=
  match a, b with
  | [], _ => true
  | x :: a', y :: b' => N.eqb x y && is_prefixb a' b'
  | _, _ => false
  end.

(* longest run of leading genuine records present in the stream; stops at close / fatal / ... *)
Fixpoint intact_prefix (gs : list grec) (stream : list byte) : list byte * bool :=
  match gs with
  | [] => ([], false)
  | g :: t =>
      if is_prefixb (g_wire g) stream then
        match g_content g with
        | CApp d => let '(more, stop) := intact_prefix t (skipn (length (g_wire g)) stream) in (d ++ more, stop)
        | CWarn => intact_prefix t (skipn (length (g_wire g)) stream)
        | _ => ([], true)
        end
      else ([], false)
  end.

Definition spec_code (c : case) : N :=
  match c with
  | AttackCase m gs stream delivered e latched modified =>
      let '(want, _) := intact_prefix gs stream in
      if negb (is_prefixb delivered want) then 1%N                    (* bytes delivered that are not the intact in-order prefix *)
      else if negb latched then 2%N                                   (* the error did not stay *)
      else if negb (bytes_eqb delivered want) &&
              negb (match e with EndTooManyIgnored => true | _ => false end) then 3%N   (* fewer bytes than the intact prefix *)
      else match m, e with
           | MCbc, EndAlert a => if N.eqb a 20 || N.eqb a 70 || N.eqb a 22 || N.eqb a 10 || N.eqb a 100 then 0%N else 4%N
           | _, _ => 0%N
           end
  end.

Definition mismatches (cs : list (N * case)) : list N :=
  map fst (filter (fun x => mismatch (snd x)) cs).
Definition spec_violations (cs : list (N * case)) : list (N * N) :=
  filter (fun x => negb (N.eqb (snd x) 0)) (map (fun x => (fst x, spec_code (snd x))) cs).
Definition evaluate (cs : list (N * case)) : list N * list (N * N) :=
  (mismatches cs, spec_violations cs).
