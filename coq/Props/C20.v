(* C20 — The protocol adapter routes by record version and loses no bytes.
   Property theorems only; proofs live in Proofs/PaProofs.v. *)
From V Require Import Model.Pa Proofs.PaProofs.

(* served by TLCP exactly when byte 1 of the stream is 0x01, by TLS exactly when 0x03, otherwise
   the unsupported-protocol error (configuration error when the matching configuration is
   absent) — for every segmentation of the stream *)
Theorem C20_route : forall ht hs t,
  wf_transport t -> 5 <= length (concat t) ->
  fst (detect ht hs t) =
    (if N.eqb (nth 1 (concat t) 0%N) 1 then (if ht then RTlcp else RNoConfig)
     else if N.eqb (nth 1 (concat t) 0%N) 3 then (if hs then RTls else RNoConfig)
     else RUnsupported).
Proof. exact route_by_major. Qed.
Print Assumptions C20_route.

(* a client that disconnects before five bytes produces an error (in finitely many reads: the
   model is a total function with fuel = number of chunks + 1, shown sufficient by this theorem) *)
Theorem C20_short_eof : forall ht hs t,
  wf_transport t -> length (concat t) < 5 ->
  fst (detect ht hs t) = RReadErr (match concat t with [] => EOF | _ => UnexpectedEOF end).
Proof. exact short_stream_is_error. Qed.
Print Assumptions C20_short_eof.

(* the chosen stack sees the client's byte stream complete from its first byte, for every
   segmentation and every sequence of read-buffer sizes (smaller or larger than the header) *)
Theorem C20_transparent : forall t ht hs sizes p rs p',
  wf_transport t -> 5 <= length (concat t) ->
  detect ht hs t = (RTlcp, p) \/ detect ht hs t = (RTls, p) ->
  pd_reads p sizes = (rs, p') ->
  outs rs ++ hdr p' ++ concat (raw p') = concat t.
Proof. exact adapter_transparent. Qed.
Print Assumptions C20_transparent.

Theorem C20_read_progress : forall p n bs e p',
  wf_transport (raw p) -> 0 < n -> pd_read p n = (bs, e, p') ->
  bs <> [] \/ e <> NoErr.
Proof. exact read_progress. Qed.
Print Assumptions C20_read_progress.

Theorem C20_error_only_at_end : forall p n bs e p',
  wf_transport (raw p) -> pd_read p n = (bs, e, p') -> e <> NoErr ->
  e = EOF /\ raw p' = [] /\ raw p = [].
Proof. exact read_error_only_at_end. Qed.
Print Assumptions C20_error_only_at_end.

Example C20_example :
  let t := [[22%N]; [1%N; 1%N]; [0%N; 2%N; 7%N]; [8%N]] in
  fst (detect true true t) = RTlcp /\
  outs (fst (pd_reads (snd (detect true true t)) [2; 2; 9; 4])) = [22; 1; 1; 0; 2; 7; 8]%N.
Proof. vm_compute. split; reflexivity. Qed.

(* the major version bytes the model routes are exactly the constants the adapter's detect() switch distinguishes,
   as read from the sources: Model/GenConsts.v is regenerated from the repository under test (tools/consts) before
   every build; stated for all 256 byte values *)
From V Require Import Model.GenConsts Proofs.TieC20.
Theorem C20_routing_constants_are_the_sources : TieC20.tie.
Proof. exact TieC20.tie_holds. Qed.
Print Assumptions C20_routing_constants_are_the_sources.
