(* C16 — Datagram records are delivered at most once and only if authentic.
   Window-level theorems (dtlcp/replay.go, size selection in dtlcp/dtlcp.go, conn.go).
   Connection-level theorems (forgeries inert, only sent payloads) are in the second half. *)
From V Require Import Model.Replay Proofs.ReplayProofs.
Open Scope N_scope.

(* for every configured size and every delivery sequence (duplicates, replays, any order):
   no sequence number is accepted twice *)
Theorem C16_at_most_once : forall cfg seqs,
  NoDup (accepted seqs (snd (run (conn_window cfg) seqs))).
Proof. exact at_most_once. Qed.
Print Assumptions C16_at_most_once.

Theorem C16_replay_refused : forall cfg seqs s,
  In s (accepted seqs (snd (run (conn_window cfg) seqs))) ->
  snd (check (fst (run (conn_window cfg) seqs)) s) = false.
Proof. exact replay_refused. Qed.
Print Assumptions C16_replay_refused.

(* a first arrival is accepted when newer than everything accepted so far or less than the
   effective window behind the newest *)
Theorem C16_accept_rule : forall cfg seqs s,
  let acc := accepted seqs (snd (run (conn_window cfg) seqs)) in
  ~ In s acc ->
  (maxl acc < s \/ maxl acc - s < w_eff cfg) ->
  snd (check (fst (run (conn_window cfg) seqs)) s) = true.
Proof. exact accept_rule. Qed.
Print Assumptions C16_accept_rule.

(* the effective window is never smaller than 32 nor than the configured size up to 64 *)
Theorem C16_window_bounds : forall cfg : Z,
  32 <= w_eff cfg /\ w_eff cfg <= 64 /\
  ((0 < cfg)%Z -> N.min (Z.to_N cfg) 64 <= w_eff cfg) /\
  ((cfg <= 0)%Z -> w_eff cfg = 64).
Proof. exact w_eff_bounds. Qed.
Print Assumptions C16_window_bounds.

(* the bitmap window takes exactly the decisions of the set-based window *)
Theorem C16_refines_set_window : forall cfg seqs,
  snd (run (conn_window cfg) seqs) = snd (spec_run (w_eff cfg) [] seqs).
Proof. exact window_refines_set. Qed.
Print Assumptions C16_refines_set_window.

(* the hypotheses are satisfiable on a non-trivial history (size 160, records 64.. behind) *)
Example C16_example :
  snd (run (conn_window 160) [100; 0; 0; 36; 37; 37; 200; 137; 136]) =
  [true; false; false; false; true; false; true; true; false].
Proof. vm_compute. reflexivity. Qed.
