(* C16 — Datagram records are delivered at most once and only if authentic.
   Window-level theorems (dtlcp/replay.go, size selection in dtlcp/dtlcp.go, conn.go).
   Connection-level theorems (forgeries inert, only sent payloads) are in the second half. *)
From V Require Import Model.Replay Proofs.ReplayProofs Model.ReplayConn Proofs.ReplayConnProofs.
Open Scope N_scope.

(* for every configured size and every delivery sequence (duplicates, replays, any order):
   no sequence number is accepted twice *)
Theorem C16_at_most_once : forall cfg seqs,
  NoDup (accepted seqs (snd (run (conn_window cfg) seqs))).
Proof. exact at_most_once. Qed.
Print Assumptions C16_at_most_once.

Theorem C16_replay_refused : forall cfg seqs s,
  In s (accepted seqs (snd (run (conn_window cfg) seqs))) ->
  snd (check (fst (run (conn_window cfg) seqs)) s) = false.
Proof. exact replay_refused. Qed.
Print Assumptions C16_replay_refused.

(* a first arrival is accepted when newer than everything accepted so far or less than the
   effective window behind the newest *)
Theorem C16_accept_rule : forall cfg seqs s,
  let acc := accepted seqs (snd (run (conn_window cfg) seqs)) in
  ~ In s acc ->
  (maxl acc < s \/ maxl acc - s < w_eff cfg) ->
  snd (check (fst (run (conn_window cfg) seqs)) s) = true.
Proof. exact accept_rule. Qed.
Print Assumptions C16_accept_rule.

(* the effective window is never smaller than 32 nor than the configured size up to 64 *)
Theorem C16_window_bounds : forall cfg : Z,
  32 <= w_eff cfg /\ w_eff cfg <= 64 /\
  ((0 < cfg)%Z -> N.min (Z.to_N cfg) 64 <= w_eff cfg) /\
  ((cfg <= 0)%Z -> w_eff cfg = 64).
Proof. exact w_eff_bounds. Qed.
Print Assumptions C16_window_bounds.

(* the bitmap window takes exactly the decisions of the set-based window *)
Theorem C16_refines_set_window : forall cfg seqs,
  snd (run (conn_window cfg) seqs) = snd (spec_run (w_eff cfg) [] seqs).
Proof. exact window_refines_set. Qed.
Print Assumptions C16_refines_set_window.

(* ------------------------------------------------------------------ connection level
   On an established connection a datagram is either a genuine record of the current epoch
   (Gen s: byte-identical to the record with sequence number s that the peer sent) or anything
   else (Bogus: forged, bit-flipped, other epoch, malformed), which fails the epoch filter, the
   framing checks or authentication (assumption: the AEAD / MAC-then-encrypt protection is
   unforgeable) and is discarded before the window is consulted.  For every history, of any length: *)

(* what is handed to the application at some position is the genuine record that arrived at that
   position; nothing else is ever delivered and the connection never fails *)
Theorem C16_conn_only_genuine : forall cfg its,
  Forall2 (fun it o => match o with
                       | Delivered s => it = Gen s
                       | Nothing => True
                       | Failed => False end) its (snd (conn_run (established cfg) its)).
Proof. exact conn_only_genuine. Qed.
Print Assumptions C16_conn_only_genuine.

(* each payload at most once (and the Finished's number never again) *)
Theorem C16_conn_at_most_once : forall cfg its,
  NoDup (delivered (snd (conn_run (established cfg) its))) /\ ~ In 0 (delivered (snd (conn_run (established cfg) its))).
Proof. exact conn_at_most_once. Qed.
Print Assumptions C16_conn_at_most_once.

(* a record that is not genuine never changes which later records are accepted: removing all of
   them from the history leaves the window state and everything delivered as they were *)
Theorem C16_conn_bogus_inert : forall cfg its,
  fst (conn_run (established cfg) its) = fst (conn_run (established cfg) (filter is_gen its)) /\
  delivered (snd (conn_run (established cfg) its)) = delivered (snd (conn_run (established cfg) (filter is_gen its))).
Proof. exact conn_bogus_inert. Qed.
Print Assumptions C16_conn_bogus_inert.

(* a genuine record is delivered the first time it arrives whenever it is newer than everything
   delivered so far or lies within the effective window behind the newest *)
Theorem C16_conn_accept_rule : forall cfg its s,
  let acc := 0 :: delivered (snd (conn_run (established cfg) its)) in
  ~ In s acc ->
  (maxl acc < s \/ maxl acc - s < w_eff cfg) ->
  snd (conn_step (fst (conn_run (established cfg) its)) (Gen s)) = Delivered s.
Proof. exact conn_accept_rule. Qed.
Print Assumptions C16_conn_accept_rule.

(* the hypotheses are satisfiable on a non-trivial history (size 160, records 64.. behind) *)
Example C16_example :
  snd (run (conn_window 160) [100; 0; 0; 36; 37; 37; 200; 137; 136]) =
  [true; false; false; false; true; false; true; true; false].
Proof. vm_compute. reflexivity. Qed.

(* the numbers and tables this property's model uses are the ones the sources declare: Model/GenConsts.v is
   regenerated from the repository under test (tools/consts) before every build *)
From V Require Import Model.GenConsts Proofs.TieC16.
Theorem C16_constants_are_the_sources : TieC16.tie.
Proof. exact TieC16.tie_holds. Qed.
Print Assumptions C16_constants_are_the_sources.
