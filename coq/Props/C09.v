(* C09 — No peer input makes an endpoint panic, spin, or buffer without bound.
   Property theorems only.  Models: Model/Kx.v (key-exchange body parsers and certificate-list
   handling, shared by both stacks), Model/Codec*.v (message decoders, C14), Model/ConnT.v (stream
   stack: rawInput / hand / retryCount machine), Model/ConnD.v (datagram stack: rawInputBuf /
   handBuf / pendingFragments / retryCount / fragmentReads machine).  Proofs: Proofs/KxProofs.v,
   Proofs/ConnTProofs.v, Proofs/ConnDProofs.v.
   Both stacks satisfy the property as stated.  The datagram stack: findings K12, K13, K14, K15
   are repaired in the library and their bounds are theorems over every datagram sequence (the
   code before each fix violates them: *_regression); in particular the bound on handBuf
   (C09_d_handbuf) is unconditional and the record reader does not recurse (C09_d_state). *)
From V Require Import Model.Codec Model.CodecAll Model.Kx Model.ConnT Model.Fragment Model.ConnD
  Proofs.CodecAllProofs Proofs.KxProofs Proofs.ConnTProofs Proofs.ConnDProofs.
Open Scope nat_scope.

(* ---------------------------------------------------------------------------------------- *)
(* Parsers: no byte string (and no answer of the cryptographic library) reaches an index, slice
   or nil dereference out of range *)

(* the twenty handshake message decoders (C14) *)
Theorem C09_decode_no_panic : forall st m bs site, decode st m bs <> Panic site.
Proof. exact all_total. Qed.
Print Assumptions C09_decode_no_panic.

(* the key-exchange parsers, both roles, ECC and ECDHE; oracles: decrypt, point_ok, verify,
   to_ecdh_ok, agree, encrypt range over all functions *)
Theorem C09_kx_no_panic :
  (forall no_certs is_decrypter decrypt ct, no_panic (ecc_process_ckx no_certs is_decrypter decrypt ct)) /\
  (forall point_ok ct, no_panic (get_ecdhe_pub point_ok ct)) /\
  (forall certs to_ecdh_ok point_ok agree ct, no_panic (ecdhe_process_ckx certs to_ecdh_ok point_ok agree ct)) /\
  (forall certs verify key, no_panic (ecc_process_skx certs verify key)) /\
  (forall certs point_ok verify key, no_panic (ecdhe_process_skx certs point_ok verify key)) /\
  (forall certs verify encrypt skx, no_panic (ecc_client_kx certs verify encrypt skx)) /\
  (forall certs point_ok verify own_enc to_ecdh_ok agree as_vector skx,
     no_panic (ecdhe_client_kx certs point_ok verify own_enc to_ecdh_ok agree as_vector skx)).
Proof.
  repeat split.
  - exact ecc_process_ckx_no_panic.
  - exact get_ecdhe_pub_no_panic.
  - exact ecdhe_process_ckx_no_panic.
  - exact ecc_process_skx_no_panic.
  - exact ecdhe_process_skx_no_panic.
  - exact ecc_client_kx_no_panic.
  - exact ecdhe_client_kx_no_panic.
Qed.
Print Assumptions C09_kx_no_panic.

(* the index / slice expressions applied to the peer's certificate list, for every number of
   certificates, every key kind (SM2, other curve, RSA, anything else) and every policy *)
Theorem C09_certs_no_panic :
  (forall kinds require_cert is_ecdhe verify_policy chain_ok,
     no_panic (server_certs kinds require_cert is_ecdhe verify_policy chain_ok)) /\
  (forall kinds insecure chain_ok, no_panic (client_certs kinds insecure chain_ok)).
Proof. split; [exact server_certs_no_panic | exact client_certs_no_panic]. Qed.
Print Assumptions C09_certs_no_panic.

(* the parsers before fixes F2, F3, F4 do panic, on the recorded inputs *)
Theorem C09_kx_regressions :
  (ecc_ckx_cipher_F2 [0] = Panic 2 /\ ecc_ckx_cipher_F2 [0; 0] = Panic 4 /\
   ecc_ckx_cipher_F2 [0; 1; 48] = Panic 5 /\ ecc_ckx_cipher_F2 [0; 2; 48; 0] = Panic 5)%N /\
  (forall pt, len pt = 65%N -> ecdhe_skx_sig_F3 ([3; 0; 41; 65]%N ++ pt) 65 = Panic 45) /\
  (forall enc, ecc_generate_ckx_F4 [KSm2; KRsa] enc = Panic 51) /\
  (forall tmp te agree v, ecdhe_generate_ckx_F4 (Some tmp) None [KSm2; KSm2] te agree v = Panic 61).
Proof.
  split; [exact ecc_ckx_F2_panics|]. split; [exact ecdhe_skx_F3_panics|]. exact generate_ckx_F4_panics.
Qed.
Print Assumptions C09_kx_regressions.

(* ---------------------------------------------------------------------------------------- *)
(* Stream stack.  S, on_msg, on_ccs: any handshake layer (either role, any state, any reaction
   to any message); dec: any record protection; rs: any sequence of records. *)

(* c.hand never exceeds maxHandshake + 4 - 1 + maxPlaintext = 81923 bytes; while the connection
   lives: at most 65539 while readHandshake waits, 16383 while the ChangeCipherSpec is awaited,
   16384 after completion; at most 16 consecutive records have been dropped *)
Theorem C09_t_buffers : forall S on_msg on_ccs dec (s : S) w rs,
  let c := trun S on_msg on_ccs dec (init s w) rs in
  length (t_hand c) <= 80 * 1024 + 3 /\ t_retry c <= 17 /\
  (t_alive c = true ->
     t_retry c <= 16 /\
     match t_want c with
     | WMsg => length (t_hand c) <= 64 * 1024 + 3
     | WCcs => length (t_hand c) <= 16 * 1024 - 1
     | WApp => length (t_hand c) <= 16 * 1024
     end).
Proof. exact t_buffers. Qed.
Print Assumptions C09_t_buffers.

(* rawInput: if one transport Read returns at most K bytes, rawInput never holds more than one
   maximal record (5 + 18432) plus K, over any byte stream in any segmentation *)
Theorem C09_t_rawinput : forall S on_msg on_ccs dec K fuel (c : tconn S) raw t peak,
  Forall (fun ch => length ch <= K) t ->
  let R := 5 + 18 * 1024 + K in
  length raw <= R -> peak <= R ->
  snd (brun S on_msg on_ccs dec fuel c raw t peak) <= R /\
  length (snd (fst (fst (fst (brun S on_msg on_ccs dec fuel c raw t peak))))) <= R.
Proof. exact t_rawinput. Qed.
Print Assumptions C09_t_rawinput.

(* progress: every iteration of the read loop consumes at least a record header of the bytes
   still to come, or stops (error, end of input): it never runs longer than there is input *)
Theorem C09_t_progress : forall S on_msg on_ccs dec fuel (c : tconn S) raw t peak,
  pending_bytes raw t < 5 * fuel ->
  snd (fst (brun S on_msg on_ccs dec fuel c raw t peak)) <> OutOfFuel.
Proof. exact t_progress. Qed.
Print Assumptions C09_t_progress.

(* non-advancing records (readRecordOrCCS recursed instead of returning): such a record changes
   nothing but retryCount, and a live connection has absorbed at most 16 of them in a row *)
Theorem C09_t_useless_records : forall S on_msg on_ccs dec rs (c : tconn S),
  all_stall S on_msg on_ccs dec c rs -> t_alive (trun S on_msg on_ccs dec c rs) = true ->
  t_retry c + length rs <= 16 \/ rs = [].
Proof. exact t_stall. Qed.
Print Assumptions C09_t_useless_records.

(* without the check fix F8 added to Conn.Read the bound is false: every B is exceeded *)
Theorem C09_t_F8_regression : forall B, exists rs,
  let c := fold_left (tstep_F8 unit no_msg no_ccs id_dec) rs (init tt WApp) in
  t_alive c = true /\ B < length (t_hand c).
Proof. exact F8_unbounded. Qed.
Print Assumptions C09_t_F8_regression.

(* ---------------------------------------------------------------------------------------- *)
(* Datagram stack.  Additional abstract arguments: fresh (replay verdicts), dwell_time /
   has_flight (the 2*MSL clock).  drun is the code as it is (fixes 593205a, 1e7de38, 6b259b8,
   bfc7028 included); read_datagram_K13, drun_K12, drun_K14, drun_K15 are the code before those
   fixes. *)

(* for every sequence of datagrams: retryCount and fragmentReads stay within their limits; every
   reassembly buffer holds at most 65536 bytes of data and 8192 of bitmask; there are never more
   than maxHandshakeFragments = 256 of them, across readHandshake calls (K12 repaired), one per
   message number, hence at most 256 * (65536 + 8192) bytes of pending reassembly memory; the
   datagram buffer holds at most 18432 + 13 bytes; the call depth of the record reader is constant
   (K15 repaired: readRecordOrCCS does not call itself, there is never a frame of it beneath the
   running one: d_frames, which only the pre-fix retryReadRecord of drun_K15 raises, stays 0) *)
Theorem C09_d_state : forall S on_msg on_ccs dec fresh dwell_time has_flight,
  non_expanding dec -> forall fuel (s : S) w dgs,
  let c := fst (fst (drun S on_msg on_ccs dec fresh dwell_time has_flight fuel (dinit s w) dgs)) in
  d_retry c <= 17 /\ (d_alive c = true -> d_retry c <= 16) /\
  d_freads c <= 257 /\ (d_alive c = true -> d_freads c <= 256) /\
  Forall (fun kv => fb_n (snd kv) <= 64 * 1024 /\ length (fb_data (snd kv)) = fb_n (snd kv) /\
                    length (fb_recv (snd kv)) = (fb_n (snd kv) + 7) / 8) (d_pend c) /\
  NoDup (map fst (d_pend c)) /\
  length (d_pend c) <= 256 /\
  pend_bytes (d_pend c) <= 256 * (64 * 1024 + 8 * 1024) /\
  (d_alive c = true -> length (d_raw c) <= 18 * 1024 + 13) /\
  d_frames c = 0.
Proof. exact d_state_bounds. Qed.
Print Assumptions C09_d_state.

(* progress: every iteration of the loops (readDatagram, one record) lowers the measure of the
   input still to be consumed *)
Theorem C09_d_progress : forall S on_msg on_ccs dec fresh dwell_time has_flight,
  non_expanding dec -> forall fuel (s : S) w dgs,
  dmeasure S (dinit s w) dgs < fuel ->
  snd (drun S on_msg on_ccs dec fresh dwell_time has_flight fuel (dinit s w) dgs) <> DOutOfFuel.
Proof. exact d_progress. Qed.
Print Assumptions C09_d_progress.

(* readDatagram does not recurse (K13 repaired): the state has no recursion depth for it; n
   datagrams from other addresses are taken by n iterations of its loop and leave the connection,
   with everything it holds, exactly as it was *)
Theorem C09_d_foreign_datagrams : forall S on_msg on_ccs dec fresh dwell_time has_flight n k (c : dconn S) rest,
  d_alive c = true -> length (d_raw c) < 13 -> grown S c = false ->
  drun S on_msg on_ccs dec fresh dwell_time has_flight (n + k) c (repeat Foreign n ++ rest) =
  drun S on_msg on_ccs dec fresh dwell_time has_flight k c rest.
Proof. exact d_foreign. Qed.
Print Assumptions C09_d_foreign_datagrams.

(* one record: the reassembly state and the handshake layer are untouched; a live connection has
   taken at least the 13 header bytes off the datagram buffer, and handBuf grew by no more than
   what left that buffer; handBuf does not grow after completion (fix F8, dtlcp) nor while the
   ChangeCipherSpec is awaited *)
Theorem C09_d_record_step : forall S on_ccs dec fresh dwell_time has_flight,
  non_expanding dec -> forall c : dconn S,
  d_alive c = true -> d_retry c <= 16 -> 13 <= length (d_raw c) ->
  let c1 := fst (process S on_ccs dec fresh dwell_time has_flight c) in
  d_pend c1 = d_pend c /\ d_hs c1 = d_hs c /\ d_want c1 = d_want c /\
  (d_alive c1 = true ->
     length (d_raw c1) + 13 <= length (d_raw c) /\
     length (d_hand c1) + length (d_raw c1) + 13 <= length (d_hand c) + length (d_raw c)) /\
  (d_hand c1 <> d_hand c -> d_want c <> WApp /\ (d_want c = WCcs -> d_ccs_done c = true)).
Proof. exact d_record_step. Qed.
Print Assumptions C09_d_record_step.

(* handBuf, for every sequence of datagrams (K14 and K15 repaired): d_entry is handLenAtEntry of
   the running readRecordOrCCS call.  Per call: handBuf never shrinks below and never exceeds
   handLenAtEntry by more than one datagram's payload (18432 bytes), since a call in which it
   grew reads no other datagram.  While the connection lives and readHandshake awaits a message,
   the call started with at most 12 + 65536 - 1 = 65547 bytes (what readHandshake holds when it
   waits), so |handBuf| <= 12 + 64*1024 - 1 + 18*1024 = 83979 bytes, whatever the peer sends *)
Theorem C09_d_handbuf : forall S on_msg on_ccs dec fresh dwell_time has_flight,
  non_expanding dec -> forall fuel (s : S) w dgs,
  let c := fst (fst (drun S on_msg on_ccs dec fresh dwell_time has_flight fuel (dinit s w) dgs)) in
  d_entry c <= length (d_hand c) /\
  length (d_hand c) <= d_entry c + 18 * 1024 /\
  (d_alive c = true -> d_want c = WMsg ->
     d_entry c <= 12 + 64 * 1024 - 1 /\
     length (d_hand c) <= 12 + 64 * 1024 - 1 + 18 * 1024).
Proof. exact d_handbuf. Qed.
Print Assumptions C09_d_handbuf.

(* the bounds fail for the code before the fixes, on the recorded inputs *)
(* K12 (before 1e7de38): three message reads left 765 reassembly buffers; the code as it is ends
   the connection at the 257th message number *)
Theorem C09_d_K12_regression :
  (let c := fst (fst (drun0_K12 4000 (dinit tt WMsg) k9_input)) in
   d_alive c = true /\ length (d_pend c) = 765 /\ d_calls c = 3) /\
  (let c := fst (fst (drun0 4000 (dinit tt WMsg) k9_input)) in
   d_alive c = false /\ length (d_pend c) = 256 /\ d_calls c = 2).
Proof. exact K12_regression. Qed.
Print Assumptions C09_d_K12_regression.

(* K13 (before 593205a): readDatagram was as deep as the run of datagrams from other addresses *)
Theorem C09_d_K13_regression : forall n d rest,
  snd (read_datagram_K13 (repeat Foreign n ++ rest) d) = snd (read_datagram_K13 rest (d + n)).
Proof. exact K13_regression. Qed.
Print Assumptions C09_d_K13_regression.

(* K14 (before 6b259b8): handBuf exceeded every bound inside one call of readRecordOrCCS *)
Theorem C09_d_K14_regression : forall B, exists dgs fuel,
  let c := fst (fst (drun0_K14 fuel (dinit tt WMsg) dgs)) in
  d_alive c = true /\ d_frames c = 0 /\ d_entry c = 0 /\ B < length (d_hand c).
Proof. exact K14_regression. Qed.
Print Assumptions C09_d_K14_regression.

(* K15 (before bfc7028; null protection, a handshake layer that accepts every message and reads
   another one, as the server's cookie exchange does): a warning alert made retryReadRecord call
   readRecordOrCCS again from inside its record loop; the new frame took the handBuf grown so far as
   its handLenAtEntry, and retryCount had been reset by the handshake record before the alert:
   datagrams [handshake record, handshake record of another epoch, warning alert] made handBuf and
   the call stack exceed every bound while readHandshake was still in its first call.  The code as
   it is returns to readHandshake after each of these datagrams, in one frame (readHandshake ends
   the connection at the twelfth: the header it then holds announces 0x070707 bytes) *)
Theorem C09_d_K15_regression :
  (forall B, exists dgs fuel,
     let c := fst (fst (drun0_K15 fuel (dinit tt WMsg) dgs)) in
     d_alive c = true /\ d_want c = WMsg /\ d_calls c = 1 /\ B < length (d_hand c) /\ B < d_frames c) /\
  (let c := fst (fst (drun0 400 (dinit tt WMsg) (repeat k15_dgram 40))) in
   d_alive c = false /\ length (d_hand c) = 12 /\ d_frames c = 0 /\ d_calls c = 1).
Proof. exact K15_regression. Qed.
Print Assumptions C09_d_K15_regression.

(* ---------------------------------------------------------------------------------------- *)
(* the hypotheses are satisfiable: a message arriving in two records with a warning alert in
   between is handed up and the connection goes on; the null protection is non-expanding *)
Example C09_example :
  t_alive ex_run = true /\ t_want ex_run = WApp /\ t_hand ex_run = [] /\ t_retry ex_run = 0 /\ non_expanding d_id.
Proof.
  destruct ex_run_ok as (A & B & C & D). repeat split; try assumption. exact d_id_non_expanding.
Qed.

(* the numbers and tables this property's model uses are the ones the sources declare: Model/GenConsts.v is
   regenerated from the repository under test (tools/consts) before every build *)
From V Require Import Model.GenConsts Proofs.TieC09.
Theorem C09_constants_are_the_sources : TieC09.tie.
Proof. exact TieC09.tie_holds. Qed.
Print Assumptions C09_constants_are_the_sources.
