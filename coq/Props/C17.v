(* C17 — Fragmented handshake messages reassemble exactly, for any fragmentation.
   Property theorems only; proofs live in Proofs/FragmentProofs.v. *)
From V Require Import Model.Fragment Proofs.FragmentProofs.

(* the buffer is complete exactly when the accepted fragments cover every byte index,
   whatever their order, overlap, duplication, or out-of-range fragments in between *)
Theorem C17_complete_iff_covered : forall total l,
  complete (add_all (new_buf total) l) = true <->
  (forall i, i < Nat.max 1 total -> covered (Nat.max 1 total) l i).
Proof. exact complete_iff_covered. Qed.
Print Assumptions C17_complete_iff_covered.

(* if every fragment carries the matching slice of m, a complete buffer holds exactly m *)
Theorem C17_assembled : forall (m : list byte) l,
  1 <= length m ->
  (forall off len fr, In (off, len, fr) l -> off + len <= length m -> fr = slice m off len) ->
  complete (add_all (new_buf (length m)) l) = true ->
  assembled (add_all (new_buf (length m)) l) = m.
Proof. exact assembled_exact. Qed.
Print Assumptions C17_assembled.

(* fragments exceeding the announced length are rejected *)
Theorem C17_rejects_overflow : forall pend f,
  f_blen f <= maxHandshake -> f_blen f < f_off f + f_len f -> rh_step pend f = (pend, RErr 50).
Proof. exact step_rejects_overflow. Qed.
Print Assumptions C17_rejects_overflow.

Theorem C17_buffer_refuses_out_of_range : forall fb off len fr,
  fb_n fb < off + len -> add_fragment fb off len fr = (fb, false).
Proof. exact add_out_of_range. Qed.
Print Assumptions C17_buffer_refuses_out_of_range.

(* the sender's fragments tile the body at every record payload limit *)
Theorem C17_split_tiles : forall mf typ seq body fs,
  send_fragments (12 + mf) typ seq body = Some fs -> 0 < mf ->
  concat (map f_body fs) = body /\
  Forall (fun f => f_type f = typ /\ f_blen f = length body /\ f_seq f = seq /\
                   f_len f = length (f_body f) /\ f_len f <= Nat.max mf (length body) /\
                   f_body f = slice body (f_off f) (f_len f) /\
                   f_off f + f_len f <= length body) fs /\
  (length body <= mf -> fs = [mkFrag typ (length body) seq 0 (length body) body]) /\
  (mf < length body -> Forall (fun f => 0 < f_len f <= mf) fs).
Proof. exact split_tiles. Qed.
Print Assumptions C17_split_tiles.

(* transcript form: whatever record payload limit (path MTU) the sender used and in whatever
   order / with whatever duplication its fragments arrive, the receiver hands to the transcript
   nothing but the unfragmented encoding, never an error, and never before all were seen *)
Theorem C17_transcript_form : forall max_payload typ seq body fs rs fuel,
  1 <= length body -> length body <= maxHandshake ->
  send_fragments max_payload typ seq body = Some fs ->
  (forall f, In f rs -> In f fs) ->
  length rs < fuel ->
  match rh_loop fuel [] rs with
  | (_, Some (Msg bytes), _) => bytes = whole typ seq body
  | (_, Some Cont, _) => False
  | (_, Some (RErr _), _) => False
  | (_, None, _) => ~ all_seen fs rs
  end.
Proof. exact reassembly_any_order. Qed.
Print Assumptions C17_transcript_form.

Theorem C17_reassembly_completes : forall max_payload typ seq body fs rs fuel,
  1 <= length body -> length body <= maxHandshake ->
  send_fragments max_payload typ seq body = Some fs ->
  (forall f, In f rs -> In f fs) -> all_seen fs rs ->
  length rs < fuel ->
  exists p rest, rh_loop fuel [] rs = (p, Some (Msg (whole typ seq body)), rest).
Proof. exact reassembly_completes. Qed.
Print Assumptions C17_reassembly_completes.

(* bounded pending state *)
Theorem C17_bounded_state : forall fuel pend fs p' o rest,
  Forall (fun kv => buf_ok (snd kv)) pend -> rh_loop fuel pend fs = (p', o, rest) ->
  Forall (fun kv => buf_ok (snd kv)) p' /\ length p' <= fuel + length pend /\
  length fs - length rest <= fuel.
Proof. exact loop_bounded. Qed.
Print Assumptions C17_bounded_state.

(* hypotheses are satisfiable: a 21-byte message cut at a 20-byte payload limit, delivered in
   reverse with a duplicate, reassembles to the unfragmented encoding *)
Example C17_example :
  let body := map N.of_nat (seq 1 21) in
  match send_fragments 20 22%N 3%N body with
  | Some fs => snd (fst (read_handshake [] (hd (mkFrag 0%N 0 0%N 0 0 []) fs :: rev fs))) = Some (Msg (whole 22%N 3%N body))
  | None => False
  end.
Proof. vm_compute. reflexivity. Qed.

(* the numbers and tables this property's model uses are the ones the sources declare: Model/GenConsts.v is
   regenerated from the repository under test (tools/consts) before every build *)
From V Require Import Model.GenConsts Proofs.TieC17.
Theorem C17_constants_are_the_sources : TieC17.tie.
Proof. exact TieC17.tie_holds. Qed.
Print Assumptions C17_constants_are_the_sources.
