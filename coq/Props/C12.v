(* C12 — Shutdown, end-of-stream and errors are reported faithfully and stay reported.
   Property theorems only; proofs live in Proofs/ConnApiProofs.v.

   Vocabulary (Model/ConnApi.v): a history `h` is a list of calls on one endpoint (CRead n,
   CWrite bs, CCloseWrite, CClose, CHandshake cancel) interleaved with the transport's own steps
   (CArrive records, CEnd on a boundary / inside a record, CGone); `run (init pl) h` is the list
   of outcomes, call by call, for a handshake environment `pl`; `arrived`, `ended_how`,
   `delivered`, `app_before_close` speak about the history alone.  XBlock is not a result (the
   call would still be waiting).  Premises: `plan_ok pl` (the handshake's own failure is not
   reported as end of stream) and `no_partial (arrived h)` (a partial record exists only at the
   end of the transport, CEnd (Some _)). *)
From V Require Import Model.ConnApi Proofs.ConnApiProofs.

(* A Read returns end-of-stream only when every application byte of the records that precede
   the close_notify (or the clean end) has been returned by this and the earlier Reads ... *)
Theorem C12_eof_only_after_all_data : forall pl h i n o,
  plan_ok pl -> no_partial (arrived h) ->
  nth_error h i = Some (CRead n) -> nth_error (run (init pl) h) i = Some o ->
  o_err o = Some XEof ->
  delivered (firstn (S i) (run (init pl) h)) = app_before_close (arrived (firstn i h)).
Proof. exact eof_only_after_all_data. Qed.
Print Assumptions C12_eof_only_after_all_data.

(* ... and only if a close_notify has arrived or the transport ended exactly on a record
   boundary; unexpected-EOF is returned only if the transport ended inside a record (so a
   transport that ends inside a record is never reported as end-of-stream unless the
   close_notify came first) *)
Theorem C12_eof_condition : forall pl h i n o,
  plan_ok pl -> no_partial (arrived h) ->
  nth_error h i = Some (CRead n) -> nth_error (run (init pl) h) i = Some o ->
  (o_err o = Some XEof ->
     has_close (arrived (firstn i h)) \/ ended_how (firstn i h) = Some None) /\
  (o_err o = Some XUnexpectedEof ->
     exists p, ended_how (firstn i h) = Some (Some p)).
Proof. exact eof_condition. Qed.
Print Assumptions C12_eof_condition.

(* The converse, for a peer that sends application data records and then ends the stream: with
   Read buffers of any non-zero sizes, every byte is delivered by Reads that return no error, and
   the first error is end-of-stream if a close_notify follows or the transport ends on the record
   boundary, unexpected-EOF if the transport ends inside the next record.
   (tail_class: [] or close_notify :: _ => XEof; [partial record] => XUnexpectedEof) *)
Theorem C12_stream_end_reported : forall pl ds tl1 p x ns,
  p_res pl = None -> Forall nonempty ds -> tail_class (tl1 ++ ptail (Some p)) = Some x ->
  Forall (fun n => n <> 0) ns -> length (concat ds) < length ns ->
  let h := CHandshake None :: CArrive (map EApp ds ++ tl1) :: CEnd p :: map CRead ns in
  exists j o, nth_error (run (init pl) h) (3 + j) = Some o /\ o_err o = Some x /\
    (forall i oi, i < j -> nth_error (run (init pl) h) (3 + i) = Some oi -> o_err oi = None /\ o_data oi <> []) /\
    delivered (firstn (S (3 + j)) (run (init pl) h)) = concat ds.
Proof. exact stream_end_reported. Qed.
Print Assumptions C12_stream_end_reported.

(* Stays reported.  (1) After Close: Read, Write and a second Close report "closed", deliver
   and send nothing.  (2) An error returned by Read is returned by every later Read (or
   "closed"), which delivers nothing — except the no_renegotiation error, finding K11 below.
   (3) A Write that failed is followed only by failing Writes that send nothing.
   (4) A failed Handshake keeps returning its error (a cancelled one: the error of the closed
   transport), and Read / Write return it too.  (5) Across the halves: a Read that failed with
   anything but an error received from the peer (EOF, unexpected EOF, fatal alert) stops Write;
   a Write that failed because the handshake failed stops Read — the remaining combinations are
   finding K10 below.  (6) Write after CloseWrite fails. *)
Theorem C12_sticky : forall pl h i j ci cj oi oj,
  i < j ->
  nth_error h i = Some ci -> nth_error (run (init pl) h) i = Some oi ->
  nth_error h j = Some cj -> nth_error (run (init pl) h) j = Some oj ->
  (* 1 *)
  (ci = CClose ->
     match cj with CRead _ | CWrite _ | CClose => oj = fail XClosed [] | _ => True end) /\
  (* 2 *)
  (forall n m e, ci = CRead n -> cj = CRead m -> m <> 0 ->
     o_err oi = Some e -> e <> XBlock -> e <> XLocal 100 ->
     (o_err oj = Some e \/ o_err oj = Some XClosed) /\ o_data oj = [] /\ o_sent oj = []) /\
  (* 3 *)
  (forall bs bs' e, ci = CWrite bs -> cj = CWrite bs' -> o_err oi = Some e -> e <> XBlock ->
     o_err oj <> None /\ o_n oj = 0 /\ o_sent oj = []) /\
  (* 4 *)
  (forall k e, ci = CHandshake k -> o_err oi = Some e -> e <> XBlock ->
     exists e', (e' = e \/ (e = XCtx /\ e' = XClosed /\ k <> None)) /\
       match cj with
       | CHandshake _ => oj = fail e' []
       | CRead _ | CWrite _ => oj = fail e' [] \/ oj = fail XClosed []
       | CCloseWrite => oj = fail XEarlyCloseWrite []
       | _ => True
       end) /\
  (* 5 *)
  (forall n bs e, ci = CRead n -> cj = CWrite bs -> o_err oi = Some e -> ~ recv_err e -> e <> XBlock ->
     o_err oj <> None /\ o_n oj = 0 /\ o_sent oj = []) /\
  (forall bs m e, ci = CWrite bs -> cj = CRead m -> o_err oi = Some e ->
     e <> XBlock -> e <> XShutdown -> e <> XClosed -> (forall c, e <> XLocal c) ->
     oj = fail e [] \/ oj = fail XClosed []) /\
  (* 6 *)
  (forall bs, ci = CCloseWrite -> cj = CWrite bs -> o_err oi <> Some XEarlyCloseWrite ->
     o_err oj <> None /\ o_n oj = 0 /\ o_sent oj = []).
Proof. exact sticky. Qed.
Print Assumptions C12_sticky.

(* Application data that arrives before the handshake has run (whatever else arrives, whatever
   is called, whatever the position inside the handshake): the handshake never completes, no
   byte is ever delivered, every later Read / Write / Handshake returns an error *)
Theorem C12_no_early_appdata : forall pl h1 evs d h2,
  forallb passive h1 = true -> In (EApp d) evs ->
  let h := h1 ++ CArrive evs :: h2 in
  s_hs (exec (init pl) h) <> HDone /\
  Forall (fun o => o_data o = []) (run (init pl) h) /\
  (forall j c o, length h1 < j -> nth_error h j = Some c -> nth_error (run (init pl) h) j = Some o ->
     match c with CRead _ | CWrite _ | CHandshake _ => o_err o <> None | _ => True end).
Proof. exact no_early_appdata. Qed.
Print Assumptions C12_no_early_appdata.

(* HandshakeContext cancelled once the peer has done k of its steps (before the handshake could
   end): the context's error is returned, the transport is closed, and every later Handshake,
   Read and Write reports the closed transport *)
Theorem C12_cancel : forall pl h1 k h2,
  forallb passive_open h1 = true ->
  k < p_steps pl -> (k <= p_pos pl \/ arrived h1 = []) ->
  let h := h1 ++ CHandshake (Some k) :: h2 in
  nth_error (run (init pl) h) (length h1) = Some (fail XCtx []) /\
  s_rawclosed (exec (init pl) (h1 ++ [CHandshake (Some k)])) = true /\
  (forall j c o, length h1 < j -> nth_error h j = Some c -> nth_error (run (init pl) h) j = Some o ->
     match c with
     | CHandshake _ => o = fail XClosed []
     | CRead _ | CWrite _ => o = fail XClosed []
     | _ => True
     end).
Proof. exact cancel_reported. Qed.
Print Assumptions C12_cancel.

(* Findings, as refutations of the unrestricted "stays reported" on the faithful model. *)
(* K10: errors are latched per half.  A fatal alert from the peer, or a truncated transport,
   reported by Read does not stop Write ... *)
Theorem C12_sticky_write_after_received_error_refuted :
  (let h := [CHandshake None; CArrive [EApp [1%N]; EAlert 2 40]; CRead 10; CWrite [7%N]] in
   nth_error (run (init plan0) h) 2 = Some (mkO (Some (XRemote 40)) 0 [1%N] []) /\
   nth_error (run (init plan0) h) 3 = Some (mkO None 1 [] [SApp [7%N]])) /\
  (let h := [CHandshake None; CArrive [EApp [1%N]]; CEnd (Some (23%N, true)); CRead 10; CRead 10; CWrite [7%N]] in
   nth_error (run (init plan0) h) 4 = Some (mkO (Some XUnexpectedEof) 0 [] []) /\
   nth_error (run (init plan0) h) 5 = Some (mkO None 1 [] [SApp [7%N]])).
Proof. split; [exact write_after_received_fatal_alert | exact write_after_truncation]. Qed.
Print Assumptions C12_sticky_write_after_received_error_refuted.

(* ... and a Write that failed on the transport does not stop Read *)
Theorem C12_sticky_read_after_failed_write_refuted :
  let h := [CHandshake None; CArrive [EApp [1%N; 2%N]]; CGone; CWrite [7%N]; CRead 10] in
  nth_error (run (init plan0) h) 3 = Some (mkO (Some XClosed) 0 [] []) /\
  nth_error (run (init plan0) h) 4 = Some (mkO None 0 [1%N; 2%N] []).
Proof. exact read_after_failed_write. Qed.
Print Assumptions C12_sticky_read_after_failed_write_refuted.

(* K11: application data, a warning alert, a handshake record and more application data in one
   burst: the second Read returns no_renegotiation, the third delivers the later data *)
Theorem C12_sticky_read_after_no_renegotiation_refuted :
  let h := [CHandshake None; CArrive [EApp [1%N]; EAlert 1 90; EHs; EApp [2%N; 3%N]]; CEnd None;
            CRead 10; CRead 10; CRead 10; CRead 10] in
  nth_error (run (init plan0) h) 3 = Some (mkO None 0 [1%N] []) /\
  nth_error (run (init plan0) h) 4 = Some (mkO (Some (XLocal 100)) 0 [] [SAlert 1 100]) /\
  nth_error (run (init plan0) h) 5 = Some (mkO None 0 [2%N; 3%N] []) /\
  nth_error (run (init plan0) h) 6 = Some (mkO (Some (XLocal 100)) 0 [] []).
Proof. exact read_after_no_renegotiation. Qed.
Print Assumptions C12_sticky_read_after_no_renegotiation_refuted.

(* the premises are satisfiable, and one history through most clauses: a warning alert inside
   the handshake is ignored; reads of 2 bytes over records of 3, 0 and 1 bytes; end-of-stream
   with the last byte; Write still works after end-of-stream, not after CloseWrite; second
   CloseWrite and Handshake after Close repeat their results; second Close reports closed *)
Example C12_example :
  (plan_ok plan0 /\
   no_partial (arrived [CArrive [EApp [1%N]; EAlert 1 0]; CHandshake None; CEnd (Some (23%N, false)); CRead 4])) /\
  run (init plan0)
    [CArrive [EAlert 1 90]; CWrite [9%N];
     CArrive [EApp [1%N; 2%N; 3%N]; EApp []; EApp [4%N]; EAlert 1 0; EApp [5%N]];
     CRead 2; CRead 0; CRead 2; CRead 2; CRead 2;
     CWrite [8%N]; CCloseWrite; CWrite [7%N]; CCloseWrite;
     CClose; CClose; CRead 1; CWrite [6%N]; CHandshake None] =
  [ mkO None 0 [] []; mkO None 1 [] [SApp [9%N]]; mkO None 0 [] [];
    mkO None 0 [1%N; 2%N] []; mkO None 0 [] []; mkO None 0 [3%N] [];
    mkO (Some XEof) 0 [4%N] []; mkO (Some XEof) 0 [] [];
    mkO None 1 [] [SApp [8%N]]; mkO None 0 [] [SAlert 1 0]; mkO (Some XShutdown) 0 [] []; mkO None 0 [] [];
    mkO None 0 [] []; mkO (Some XClosed) 0 [] []; mkO (Some XClosed) 0 [] []; mkO (Some XClosed) 0 [] [];
    mkO None 0 [] [] ].
Proof. split; [exact example_premises | exact example_history]. Qed.
