(* C12 — Shutdown, end-of-stream and errors are reported faithfully and stay reported.
   Property theorems only; proofs live in Proofs/ConnApiProofs.v.

   Vocabulary (Model/ConnApi.v): a history `h` is a list of calls on one endpoint (CRead n,
   CWrite bs, CCloseWrite, CClose, CHandshake cancel) interleaved with the transport's own steps
   (CArrive records, CEnd on a boundary / inside a record, CGone); `run (init pl) h` is the list
   of outcomes, call by call, for a handshake environment `pl`; `arrived`, `ended_how`,
   `delivered`, `app_before_close` speak about the history alone.  XBlock is not a result (the
   call would still be waiting).  Premises: `plan_ok pl` (the handshake's own failure is not
   reported as end of stream) and `no_partial (arrived h)` (a partial record exists only at the
   end of the transport, CEnd (Some _)). *)
From V Require Import Model.ConnApi Proofs.ConnApiProofs.

(* A Read returns end-of-stream only when every application byte of the records that precede
   the close_notify (or the clean end) has been returned by this and the earlier Reads ... *)
Theorem C12_eof_only_after_all_data : forall pl h i n o,
  plan_ok pl -> no_partial (arrived h) ->
  nth_error h i = Some (CRead n) -> nth_error (run (init pl) h) i = Some o ->
  o_err o = Some XEof ->
  delivered (firstn (S i) (run (init pl) h)) = app_before_close (arrived (firstn i h)).
Proof. exact eof_only_after_all_data. Qed.
Print Assumptions C12_eof_only_after_all_data.

(* ... and only if a close_notify has arrived or the transport ended exactly on a record
   boundary; unexpected-EOF is returned only if the transport ended inside a record (so a
   transport that ends inside a record is never reported as end-of-stream unless the
   close_notify came first) *)
Theorem C12_eof_condition : forall pl h i n o,
  plan_ok pl -> no_partial (arrived h) ->
  nth_error h i = Some (CRead n) -> nth_error (run (init pl) h) i = Some o ->
  (o_err o = Some XEof ->
     has_close (arrived (firstn i h)) \/ ended_how (firstn i h) = Some None) /\
  (o_err o = Some XUnexpectedEof ->
     exists p, ended_how (firstn i h) = Some (Some p)).
Proof. exact eof_condition. Qed.
Print Assumptions C12_eof_condition.

(* The converse, for a peer that sends application data records and then ends the stream: with
   Read buffers of any non-zero sizes, every byte is delivered by Reads that return no error, and
   the first error is end-of-stream if a close_notify follows or the transport ends on the record
   boundary, unexpected-EOF if the transport ends inside the next record.
   (tail_class: [] or close_notify :: _ => XEof; [partial record] => XUnexpectedEof) *)
Theorem C12_stream_end_reported : forall pl ds tl1 p x ns,
  p_res pl = None -> Forall nonempty ds -> tail_class (tl1 ++ ptail (Some p)) = Some x ->
  Forall (fun n => n <> 0) ns -> length (concat ds) < length ns ->
  let h := CHandshake None :: CArrive (map EApp ds ++ tl1) :: CEnd p :: map CRead ns in
  exists j o, nth_error (run (init pl) h) (3 + j) = Some o /\ o_err o = Some x /\
    (forall i oi, i < j -> nth_error (run (init pl) h) (3 + i) = Some oi -> o_err oi = None /\ o_data oi <> []) /\
    delivered (firstn (S (3 + j)) (run (init pl) h)) = concat ds.
Proof. exact stream_end_reported. Qed.
Print Assumptions C12_stream_end_reported.

(* Stays reported.  `fail e []` is the outcome "error e, nothing accepted, nothing delivered,
   nothing sent".  (1) After Close: Read, Write and a second Close report "closed".
   (2) An error returned by Read is returned by every later Read (or "closed"), which delivers
   and sends nothing.  (3) A Write that failed is followed only by failing Writes that send
   nothing.  (4) A failed Handshake keeps returning its error (a cancelled one: the error of the
   closed transport), and Read / Write return it too.  (5) Across the halves (the connection-wide
   latch c.fatal): after Read returned any error but end-of-stream, every Write fails and sends
   nothing; after Write returned any error but "shutdown", every Read fails and delivers nothing,
   buffered plaintext included.  (6) Write after CloseWrite fails.
   What the premises leave out, each on purpose:
   - `e <> XBlock`: XBlock is not a result (the call is still waiting; a timeout is not latched:
     noteFatal skips net.Error.Timeout, readRecord does not latch temporary errors);
   - `e <> XEof` in (5): end-of-stream (close_notify, or a clean end of the transport) is not an
     error of the connection; this endpoint may go on writing (half-close);
   - `e <> XShutdown` in (5): Write fails with "shutdown" because CloseWrite sent this endpoint's
     close_notify; reading goes on until the peer closes;
   - `m <> 0`: Read with an empty buffer returns (0, nil) once the handshake has completed,
     whatever happened since (it returns before looking at the connection); after Close or a
     failed handshake it fails as well (clauses 1 and 4 have no such premise);
   - Handshake() on an established connection returns the latched nil also after a fatal error
     or Close (every caller observes the same handshake result: C13); clause 4 covers the failed
     handshake.
   The Read that first reports an error may deliver bytes with it (the look-ahead of Conn.Read
   returns (n, err)); every later call delivers nothing: the clauses speak about `oj`, j > i. *)
Theorem C12_sticky : forall pl h i j ci cj oi oj,
  i < j ->
  nth_error h i = Some ci -> nth_error (run (init pl) h) i = Some oi ->
  nth_error h j = Some cj -> nth_error (run (init pl) h) j = Some oj ->
  (* 1 *)
  (ci = CClose ->
     match cj with CRead _ | CWrite _ | CClose => oj = fail XClosed [] | _ => True end) /\
  (* 2 *)
  (forall n m e, ci = CRead n -> cj = CRead m -> m <> 0 ->
     o_err oi = Some e -> e <> XBlock ->
     oj = fail e [] \/ oj = fail XClosed []) /\
  (* 3 *)
  (forall bs bs' e, ci = CWrite bs -> cj = CWrite bs' -> o_err oi = Some e -> e <> XBlock ->
     exists e', oj = fail e' []) /\
  (* 4 *)
  (forall k e, ci = CHandshake k -> o_err oi = Some e -> e <> XBlock ->
     exists e', (e' = e \/ (e = XCtx /\ e' = XClosed /\ k <> None)) /\
       match cj with
       | CHandshake _ => oj = fail e' []
       | CRead _ | CWrite _ => oj = fail e' [] \/ oj = fail XClosed []
       | CCloseWrite => oj = fail XEarlyCloseWrite []
       | _ => True
       end) /\
  (* 5 *)
  (forall n bs e, ci = CRead n -> cj = CWrite bs -> o_err oi = Some e -> e <> XBlock -> e <> XEof ->
     exists e', oj = fail e' []) /\
  (forall bs m e, ci = CWrite bs -> cj = CRead m -> m <> 0 -> o_err oi = Some e -> e <> XBlock -> e <> XShutdown ->
     exists e', oj = fail e' []) /\
  (* 6 *)
  (forall bs, ci = CCloseWrite -> cj = CWrite bs -> o_err oi <> Some XEarlyCloseWrite ->
     exists e', oj = fail e' []).
Proof. exact sticky. Qed.
Print Assumptions C12_sticky.

(* Application data that arrives before the handshake has run (whatever else arrives, whatever
   is called, whatever the position inside the handshake): the handshake never completes, no
   byte is ever delivered, every later Read / Write / Handshake returns an error *)
Theorem C12_no_early_appdata : forall pl h1 evs d h2,
  forallb passive h1 = true -> In (EApp d) evs ->
  let h := h1 ++ CArrive evs :: h2 in
  s_hs (exec (init pl) h) <> HDone /\
  Forall (fun o => o_data o = []) (run (init pl) h) /\
  (forall j c o, length h1 < j -> nth_error h j = Some c -> nth_error (run (init pl) h) j = Some o ->
     match c with CRead _ | CWrite _ | CHandshake _ => o_err o <> None | _ => True end).
Proof. exact no_early_appdata. Qed.
Print Assumptions C12_no_early_appdata.

(* HandshakeContext cancelled once the peer has done k of its steps (before the handshake could
   end): the context's error is returned, the transport is closed, and every later Handshake,
   Read and Write reports the closed transport *)
Theorem C12_cancel : forall pl h1 k h2,
  forallb passive_open h1 = true ->
  k < p_steps pl -> (k <= p_pos pl \/ arrived h1 = []) ->
  let h := h1 ++ CHandshake (Some k) :: h2 in
  nth_error (run (init pl) h) (length h1) = Some (fail XCtx []) /\
  s_rawclosed (exec (init pl) (h1 ++ [CHandshake (Some k)])) = true /\
  (forall j c o, length h1 < j -> nth_error h j = Some c -> nth_error (run (init pl) h) j = Some o ->
     match c with
     | CHandshake _ => o = fail XClosed []
     | CRead _ | CWrite _ => o = fail XClosed []
     | _ => True
     end).
Proof. exact cancel_reported. Qed.
Print Assumptions C12_cancel.

(* The histories of the former findings K10 and K11 (fixed in 46481b8), as the fixed code runs
   them.  K10: a fatal alert received, or a transport truncated inside a record, stops Write as
   well; a failed transport write stops Read, and the bytes that had arrived stay undelivered. *)
Theorem C12_sticky_across_halves :
  (let h := [CHandshake None; CArrive [EApp [1%N]; EAlert 2 40]; CRead 10; CWrite [7%N]; CRead 10] in
   nth_error (run (init plan0) h) 2 = Some (mkO (Some (XRemote 40)) 0 [1%N] []) /\
   nth_error (run (init plan0) h) 3 = Some (fail (XRemote 40) []) /\
   nth_error (run (init plan0) h) 4 = Some (fail (XRemote 40) [])) /\
  (let h := [CHandshake None; CArrive [EApp [1%N]]; CEnd (Some (23%N, true)); CRead 10; CRead 10; CWrite [7%N]] in
   nth_error (run (init plan0) h) 3 = Some (mkO None 0 [1%N] []) /\
   nth_error (run (init plan0) h) 4 = Some (fail XUnexpectedEof []) /\
   nth_error (run (init plan0) h) 5 = Some (fail XUnexpectedEof [])) /\
  (let h := [CHandshake None; CArrive [EApp [1%N; 2%N]]; CGone; CWrite [7%N]; CRead 10] in
   nth_error (run (init plan0) h) 3 = Some (fail XClosed []) /\
   nth_error (run (init plan0) h) 4 = Some (fail XClosed [])).
Proof. split; [exact write_after_received_fatal_alert | split; [exact write_after_truncation | exact read_after_failed_write]]. Qed.
Print Assumptions C12_sticky_across_halves.

(* K11: application data, a warning alert, a handshake record and more application data in one
   burst: the first Read returns its byte together with the no_renegotiation error (the look-ahead
   rejects the handshake record at once); the later data is never delivered, nothing is sent *)
Theorem C12_sticky_no_renegotiation :
  let h := [CHandshake None; CArrive [EApp [1%N]; EAlert 1 90; EHs; EApp [2%N; 3%N]]; CEnd None;
            CRead 10; CRead 10; CRead 10; CWrite [3%N]] in
  nth_error (run (init plan0) h) 3 = Some (mkO (Some (XLocal 100)) 0 [1%N] [SAlert 1 100]) /\
  nth_error (run (init plan0) h) 4 = Some (fail (XLocal 100) []) /\
  nth_error (run (init plan0) h) 5 = Some (fail (XLocal 100) []) /\
  nth_error (run (init plan0) h) 6 = Some (fail (XLocal 100) []).
Proof. exact read_after_no_renegotiation. Qed.
Print Assumptions C12_sticky_no_renegotiation.

(* The premises of C12_sticky that remain are needed: end-of-stream does not stop Write,
   "shutdown" does not stop Read, Read with an empty buffer and Handshake on an established
   connection return nil after a fatal alert *)
Theorem C12_sticky_premises_needed :
  (let h := [CHandshake None; CArrive [EAlert 1 0]; CRead 10; CWrite [7%N]] in
   nth_error (run (init plan0) h) 2 = Some (fail XEof []) /\
   nth_error (run (init plan0) h) 3 = Some (mkO None 1 [] [SApp [7%N]])) /\
  (let h := [CHandshake None; CArrive [EApp [1%N]]; CCloseWrite; CWrite [7%N]; CRead 10] in
   nth_error (run (init plan0) h) 3 = Some (fail XShutdown []) /\
   nth_error (run (init plan0) h) 4 = Some (mkO None 0 [1%N] [])) /\
  (let h := [CHandshake None; CArrive [EAlert 2 40]; CRead 10; CRead 0; CHandshake None] in
   nth_error (run (init plan0) h) 2 = Some (fail (XRemote 40) []) /\
   nth_error (run (init plan0) h) 3 = Some (mkO None 0 [] []) /\
   nth_error (run (init plan0) h) 4 = Some (mkO None 0 [] [])).
Proof. exact not_fatal_examples. Qed.
Print Assumptions C12_sticky_premises_needed.

(* the premises are satisfiable, and one history through most clauses: a warning alert inside
   the handshake is ignored; reads of 2 bytes over records of 3, 0 and 1 bytes; end-of-stream
   with the last byte; Write still works after end-of-stream, not after CloseWrite; second
   CloseWrite and Handshake after Close repeat their results; second Close reports closed *)
Example C12_example :
  (plan_ok plan0 /\
   no_partial (arrived [CArrive [EApp [1%N]; EAlert 1 0]; CHandshake None; CEnd (Some (23%N, false)); CRead 4])) /\
  run (init plan0)
    [CArrive [EAlert 1 90]; CWrite [9%N];
     CArrive [EApp [1%N; 2%N; 3%N]; EApp []; EApp [4%N]; EAlert 1 0; EApp [5%N]];
     CRead 2; CRead 0; CRead 2; CRead 2; CRead 2;
     CWrite [8%N]; CCloseWrite; CWrite [7%N]; CCloseWrite;
     CClose; CClose; CRead 1; CWrite [6%N]; CHandshake None] =
  [ mkO None 0 [] []; mkO None 1 [] [SApp [9%N]]; mkO None 0 [] [];
    mkO None 0 [1%N; 2%N] []; mkO None 0 [] []; mkO None 0 [3%N] [];
    mkO (Some XEof) 0 [4%N] []; mkO (Some XEof) 0 [] [];
    mkO None 1 [] [SApp [8%N]]; mkO None 0 [] [SAlert 1 0]; mkO (Some XShutdown) 0 [] []; mkO None 0 [] [];
    mkO None 0 [] []; mkO (Some XClosed) 0 [] []; mkO (Some XClosed) 0 [] []; mkO (Some XClosed) 0 [] [];
    mkO None 0 [] [] ].
Proof. split; [exact example_premises | exact example_history]. Qed.

(* the numbers and tables this property's model uses are the ones the sources declare: Model/GenConsts.v is
   regenerated from the repository under test (tools/consts) before every build *)
From V Require Import Model.GenConsts Proofs.TieC12.
Theorem C12_constants_are_the_sources : TieC12.tie.
Proof. exact TieC12.tie_holds. Qed.
Print Assumptions C12_constants_are_the_sources.
