(* C02 — A verifying client completes only with an authenticated server.
   Property theorems only; proofs live in Proofs/AuthProofs.v (decision level) and
   Proofs/HandshakeProofs.v (message order: the signed key exchange and the Finished are
   mandatory items of every legal flow, see Props/C08.v).  The oracle fields of `server_view`
   are computed by the harness with smx509 / sm2 on the bytes of the handshake at hand. *)
From V Require Import Model.Auth Proofs.AuthProofs.

(* a client completes a full handshake only if: two certificates were presented and parsed; with
   verification on, both pass chain / validity / host name; a ServerKeyExchange was received and
   its signature verifies under the signing certificate's key over THIS handshake's randoms and
   key-exchange parameters; the Finished matches the master secret this client derived *)
Theorem C02_complete_implies_checked : forall c v,
  client_full_accepts c v = true ->
  2 <= sv_ncerts v /\ sv_parse_ok v = true /\
  (cc_insecure c = false -> sv_chain_sig v = true /\ sv_chain_enc v = true) /\
  sv_skx_present v = true /\ sv_sig_ok v = true /\ sv_fin_ok v = true.
Proof. exact client_complete_implies_checked. Qed.
Print Assumptions C02_complete_implies_checked.

(* with certificate verification disabled the two proofs of possession are still required *)
Theorem C02_insecure_still_pop : forall v,
  client_full_accepts (mkCC true) v = true ->
  sv_skx_present v = true /\ sv_sig_ok v = true /\ sv_fin_ok v = true.
Proof. exact client_insecure_still_pop. Qed.
Print Assumptions C02_insecure_still_pop.

(* no spurious refusal: when every check holds the client completes *)
Theorem C02_checked_implies_complete : forall c v,
  2 <= sv_ncerts v -> sv_parse_ok v = true ->
  (cc_insecure c = true \/ (sv_chain_sig v = true /\ sv_chain_enc v = true)) ->
  sv_keytype_ok v = true -> sv_enckey_sm2 v = true ->
  sv_skx_present v = true -> sv_skx_wellformed v = true -> sv_sig_ok v = true -> sv_fin_ok v = true ->
  client_full_accepts c v = true.
Proof. exact client_checked_implies_complete. Qed.
Print Assumptions C02_checked_implies_complete.

(* a resumed completion implies the recorded certificates pass the same checks under the
   configuration now in use *)
Theorem C02_resume_revalidates : forall c r,
  client_resume_accepts c r = true ->
  (cc_insecure c = false -> rv_sess_chain_ok r = true) /\ rv_fin_ok r = true.
Proof. exact client_resume_revalidates. Qed.
Print Assumptions C02_resume_revalidates.

Example C02_example :
  client_full_accepts (mkCC false) (mkSV 2 true true true true true true true true true) = true /\
  client_full_accepts (mkCC false) (mkSV 2 true true false true true true true true true) = false /\
  client_full_accepts (mkCC true) (mkSV 2 true false false true true false false false true) = false.
Proof. vm_compute. repeat split; reflexivity. Qed.
