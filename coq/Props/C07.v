(* C07 — A server completes only when its client-authentication policy is satisfied.
   Property theorems only; proofs live in Proofs/AuthProofs.v. *)
From V Require Import Model.Auth Proofs.AuthProofs.

(* completion implies the declarative policy table, both certificates for ECDHE, and — whenever
   a certificate was sent — a CertificateVerify whose signature verifies over the handshake so far *)
Theorem C07_complete_iff_policy : forall p ecdhe v,
  server_full_accepts p ecdhe v = true ->
  (requests_cert p ecdhe = true ->
     policy_allows p (cv_ncerts v) (cv_chain_ok v) = true /\
     (ecdhe = true -> 2 <= cv_ncerts v) /\
     (cv_ncerts v <> 0 -> cv_verify_msg v = true /\ cv_verify_ok v = true)) /\
  cv_fin_ok v = true.
Proof. exact server_complete_iff_policy. Qed.
Print Assumptions C07_complete_iff_policy.

(* after completion a non-empty peer-certificate list means the proof of possession was checked *)
Theorem C07_peer_certs_imply_pop : forall p ecdhe v,
  server_full_accepts p ecdhe v = true -> peer_certs_nonempty p ecdhe v = true ->
  cv_verify_msg v = true /\ cv_verify_ok v = true.
Proof. exact server_peer_certs_imply_pop. Qed.
Print Assumptions C07_peer_certs_imply_pop.

(* and non-empty verified chains mean the chain was verified *)
Theorem C07_chains_imply_verified : forall p ecdhe v,
  server_full_accepts p ecdhe v = true -> verified_chains_nonempty p ecdhe v = true ->
  cv_chain_ok v = true.
Proof. exact server_chains_imply_verified. Qed.
Print Assumptions C07_chains_imply_verified.

(* a session is resumed only under a policy its recorded certificates satisfy *)
Theorem C07_resume_respects_policy : forall p s,
  session_satisfies p s = true ->
  policy_allows p (se_ncerts s) (se_chain_ok s) = true.
Proof. exact server_resume_respects_policy. Qed.
Print Assumptions C07_resume_respects_policy.

(* before the fix the resumption decision ignored the policy (finding F6) *)
Theorem C07_resume_refuted_before_fix : exists p s,
  session_satisfies_old p s = true /\ policy_allows p (se_ncerts s) (se_chain_ok s) = false.
Proof. exact server_resume_old_refuted. Qed.
Print Assumptions C07_resume_refuted_before_fix.

(* the numbering of the client-authentication policies (the library compares them numerically) is the one the
   sources declare: Model/GenConsts.v is regenerated from the repository under test (tools/consts) before every build *)
From V Require Import Model.GenConsts Proofs.TieC07.
Theorem C07_policy_numbering_is_the_sources : TieC07.tie.
Proof. exact TieC07.tie_holds. Qed.
Print Assumptions C07_policy_numbering_is_the_sources.
