(* C04 — Key schedule and record protection match an independent reading of GB/T 38636.
   Property theorems only; proofs live in Proofs/C04Proofs.v.  The statements are about the
   specification (Spec/PRF, SM4, Modes, RecordProt) that the correspondence (Corr/Run_C04) evaluates on
   captured connections, and about the model of extractPadding (Model/Padding). *)
From Coq Require Import NArith Arith List String.
From V Require Import Spec.RecordProt Model.Padding Proofs.C04Proofs.
Import ListNotations.
Open Scope N_scope.

(* the six slices of a key block are contiguous, disjoint, in the order client MAC, server MAC,
   client key, server key, client IV, server IV, have the suite's lengths and concatenate to the
   first 2*mac + 2*key + 2*iv bytes *)
Theorem C04_keyblock_partition : forall (l : suite_lens) (kb : list byte),
  (block_len l <= length kb)%nat ->
  let k := cut_keys l kb in
  client_mac k ++ server_mac k ++ client_key k ++ server_key k ++ client_iv k ++ server_iv k = firstn (block_len l) kb /\
  length (client_mac k) = mac_len l /\ length (server_mac k) = mac_len l /\
  length (client_key k) = key_len l /\ length (server_key k) = key_len l /\
  length (client_iv k) = iv_len l /\ length (server_iv k) = iv_len l /\
  client_mac k = slice 0 (mac_len l) kb /\
  server_mac k = slice (mac_len l) (mac_len l) kb /\
  client_key k = slice (2 * mac_len l) (key_len l) kb /\
  server_key k = slice (2 * mac_len l + key_len l) (key_len l) kb /\
  client_iv k = slice (2 * mac_len l + 2 * key_len l) (iv_len l) kb /\
  server_iv k = slice (2 * mac_len l + 2 * key_len l + iv_len l) (iv_len l) kb.
Proof. exact keyblock_partition. Qed.
Print Assumptions C04_keyblock_partition.

(* ... and for the working keys of a connection the key block is exactly the PRF output
   PRF(master, "key expansion", server_random + client_random) of that length *)
Theorem C04_working_keys_partition : forall master cr sr (l : suite_lens),
  let kb := prf master "key expansion"%string (sr ++ cr) (block_len l) in
  let k := working_keys master cr sr l in
  length kb = block_len l /\
  client_mac k ++ server_mac k ++ client_key k ++ server_key k ++ client_iv k ++ server_iv k = kb /\
  length (client_mac k) = mac_len l /\ length (server_mac k) = mac_len l /\
  length (client_key k) = key_len l /\ length (server_key k) = key_len l /\
  length (client_iv k) = iv_len l /\ length (server_iv k) = iv_len l.
Proof. exact working_keys_partition. Qed.
Print Assumptions C04_working_keys_partition.

(* the client's write keys are the server's read keys and vice versa *)
Theorem C04_direction : forall k : keys,
  write_keys (client_keys k) = read_keys (server_keys k) /\
  write_keys (server_keys k) = read_keys (client_keys k) /\
  write_keys (client_keys k) = mkDK (client_mac k) (client_key k) (client_iv k) /\
  write_keys (server_keys k) = mkDK (server_mac k) (server_key k) (server_iv k).
Proof. exact direction. Qed.
Print Assumptions C04_direction.

(* SM4: decryption (the same rounds with the round keys reversed) inverts encryption, for every
   key and every block of 16 bytes; proved from the Feistel shape, independent of the S-box *)
Theorem C04_sm4_roundtrip : forall key b : list byte,
  length b = 16%nat -> Forall (fun x => x < 256) b ->
  sm4_decrypt key (sm4_encrypt key b) = b /\ sm4_encrypt key (sm4_decrypt key b) = b.
Proof. intros key b Hl Hb. split; [apply sm4_roundtrip | apply sm4_roundtrip']; split; assumption. Qed.
Print Assumptions C04_sm4_roundtrip.

Theorem C04_cbc_roundtrip : forall (key iv data : list byte) (n : nat),
  length iv = 16%nat -> Forall (fun x => x < 256) iv -> Forall (fun x => x < 256) data -> length data = (16 * n)%nat ->
  cbc_decrypt key iv (cbc_encrypt key iv data) = data.
Proof. intros key iv data n Hl Hiv Hd Hn. apply (cbc_roundtrip key iv data n); [split |..]; assumption. Qed.
Print Assumptions C04_cbc_roundtrip.

(* GCM: CTR encryption is an involution and the receiver recomputes the same tag *)
Theorem C04_gcm_roundtrip : forall key iv aad pt : list byte,
  gcm_open key iv aad (gcm_seal key iv aad pt) = Some pt.
Proof. exact gcm_roundtrip. Qed.
Print Assumptions C04_gcm_roundtrip.

(* a protected record opens to its plaintext, type, version, sequence number (and epoch), for both
   modes and both header forms.  wf_explicit: CBC - explicit IV of 16 bytes below 256 and
   byte-valued plaintext; GCM - explicit nonce of 8 bytes *)
Theorem C04_record_roundtrip : forall (m : mode) (f : hform) (k : dir_keys) (epoch seq typ ver : N) (pt explicit : list byte),
  ver < 65536 ->
  (f = HD -> epoch < 65536 /\ seq < 281474976710656) ->
  N.of_nat (length pt) <= 18432 ->          (* 2^14 + 2048 *)
  match m with
  | MCbc => (length explicit = 16%nat /\ Forall (fun x => x < 256) explicit) /\ Forall (fun x => x < 256) pt
  | MGcm => length explicit = 8%nat
  end ->
  unprotect m f k seq (protect m f k epoch seq typ ver pt explicit) =
  Some (mkOpened typ ver (match f with HT => 0 | HD => epoch end) seq pt).
Proof. intros m f k e s t v pt ex Hv Hf Hl Hex. apply record_roundtrip; assumption. Qed.
Print Assumptions C04_record_roundtrip.

(* the MAC input determines sequence number (epoch and 48-bit sequence number), type, version,
   length and data; the AEAD additional data determines the same header fields *)
Theorem C04_mac_input_injective : forall (f : hform) e s t v (d : list byte) e' s' t' v' (d' : list byte),
  wf_seq f e s -> wf_seq f e' s' -> v < 65536 -> v' < 65536 ->
  N.of_nat (length d) < 65536 -> N.of_nat (length d') < 65536 ->
  mac_input (seq8 f e s) t v d = mac_input (seq8 f e' s') t' v' d' ->
  s = s' /\ (f = HD -> e = e') /\ t = t' /\ v = v' /\ length d = length d' /\ d = d'.
Proof. exact mac_input_injective. Qed.
Print Assumptions C04_mac_input_injective.

Theorem C04_aad_injective : forall (f : hform) e s t v l e' s' t' v' l',
  wf_seq f e s -> wf_seq f e' s' -> v < 65536 -> v' < 65536 -> l < 65536 -> l' < 65536 ->
  auth_header (seq8 f e s) t v l = auth_header (seq8 f e' s') t' v' l' ->
  s = s' /\ (f = HD -> e = e') /\ t = t' /\ v = v' /\ l = l'.
Proof. exact aad_injective. Qed.
Print Assumptions C04_aad_injective.

(* GCM nonces (4-byte write IV || 8 bytes) built from the sequence number never repeat under one
   key: distinct counters below 2^64 (TLCP), distinct (epoch, 48-bit sequence number) pairs
   (datagram form).  The 2^48 bound is what finding F18 (no wrap check on the datagram write
   counter) would break. *)
Theorem C04_gcm_nonce_unique : forall k : dir_keys,
  (forall i j, i < 18446744073709551616 -> j < 18446744073709551616 -> i <> j ->
     nonce k (seq8 HT 0 i) <> nonce k (seq8 HT 0 j)) /\
  (forall e s e' s', e < 65536 -> s < 281474976710656 -> e' < 65536 -> s' < 281474976710656 -> (e, s) <> (e', s') ->
     nonce k (seq8 HD e s) <> nonce k (seq8 HD e' s')).
Proof.
  intro k. split.
  - intros i j Hi Hj Hne E. apply (gcm_nonce_unique HT k 0 i 0 j) in E; [tauto | exact Hi | exact Hj].
  - intros e s e' s' He Hs He' Hs' Hne E.
    apply (gcm_nonce_unique HD k e s e' s') in E; [| split; assumption | split; assumption].
    destruct E as [E1 E2]. apply Hne. rewrite E1, (E2 eq_refl). reflexivity.
Qed.
Print Assumptions C04_gcm_nonce_unique.

(* Go's constant-time extractPadding (bit arithmetic with uint / int32 / byte wrap-around, only the
   last min(256, len) bytes inspected) computes exactly the declarative check "the last p+1 bytes
   all equal p, p = last byte": toRemove = p+1 and good = 255 if so, toRemove = 1 and good = 0
   otherwise - for every payload, also those longer than 256 bytes (p <= 255, so the last 256
   bytes are all the check ever needs) *)
Theorem C04_padding_spec : forall payload : list N,
  Forall (fun x => x < 256) payload -> N.of_nat (length payload) <= 2147483648 ->
  extract_padding payload =
  match payload with
  | [] => (0, 0)
  | _ => let p := nth (length payload - 1) payload 0 in
         if padding_good payload then (p + 1, 255) else (1, 0)
  end.
Proof. exact extract_padding_spec. Qed.
Print Assumptions C04_padding_spec.

(* ... and what it reports is what the specification's unpad removes *)
Theorem C04_padding_unpad : forall payload : list N,
  payload <> [] -> Forall (fun x => x < 256) payload -> N.of_nat (length payload) <= 2147483648 ->
  let '(to_remove, good) := extract_padding payload in
  (good = 255 \/ good = 0) /\
  (good = 255 -> unpad payload = Some (firstn (length payload - N.to_nat to_remove) payload)) /\
  (good = 0 -> unpad payload = None /\ to_remove = 1).
Proof. exact extract_padding_unpad. Qed.
Print Assumptions C04_padding_unpad.

(* the hypotheses are satisfiable: a concrete record of each mode and header form *)
Example C04_hypotheses_satisfiable :
  let pt := seqb 37 5 2 in
  (N.of_nat (length pt) <= 18432 /\
   ((length viv = 16%nat /\ Forall (fun x => x < 256) viv) /\ Forall (fun x => x < 256) pt) /\
   length (be 8 5) = 8%nat /\ wf_seq HD 1 5 /\ wf_seq HT 0 5) /\
  unprotect MCbc HD rt_keys 5 (protect MCbc HD rt_keys 1 5 23 0x0101 pt viv) = Some (mkOpened 23 0x0101 1 5 pt) /\
  unprotect MGcm HT rt_keys 5 (protect MGcm HT rt_keys 0 5 23 0x0101 pt (be 8 5)) = Some (mkOpened 23 0x0101 0 5 pt) /\
  extract_padding [7; 2; 2; 2] = (3, 255) /\ extract_padding [7; 2; 1; 2] = (1, 0).
Proof.
  cbv zeta. split; [| vm_compute; repeat split; reflexivity].
  split; [vm_compute; discriminate |].
  split; [split; [split; [reflexivity |] |]; repeat constructor |].
  split; [reflexivity |]. split; [split; reflexivity | reflexivity].
Qed.

(* the key, MAC and IV lengths with which the specification cuts the key block are the ones of the library's
   cipher-suite table: Model/GenConsts.v is regenerated from the repository under test (tools/consts) before
   every build; every row of both stacks' tables carries the lengths of lens_of for its protection mode *)
From V Require Import Model.GenConsts Proofs.TieSuites.
Theorem C04_key_lengths_are_the_sources : forall r,
  In r GenConsts.T.cipherSuites \/ In r GenConsts.D.cipherSuites ->
  exists id kl ml il fl ids, r = (id, [id; kl; ml; il; fl], ids) /\
     ([kl; ml; il] = TieSuites.lens_row MCbc \/ [kl; ml; il] = TieSuites.lens_row MGcm).
Proof.
  intros r [H|H]; [exact (TieSuites.table_row_lens _ _ _ _ r TieSuites.t_table H)
                  | exact (TieSuites.table_row_lens _ _ _ _ r TieSuites.d_table H)].
Qed.
Print Assumptions C04_key_lengths_are_the_sources.
