(* C15 — Datagram connections keep message boundaries and respect the path MTU.
   Property theorems only; proofs live in Proofs/RecordDProofs.v. *)
From V Require Import Model.RecordD Proofs.RecordDProofs.
Open Scope Z_scope.

(* a payload within the maximum payload produces exactly one datagram ... *)
Theorem C15_one_datagram : forall pmtu m n,
  0 < n <= max_payload pmtu m -> write_datagrams pmtu m n = [record_len m n].
Proof. exact one_datagram. Qed.
Print Assumptions C15_one_datagram.

(* ... that fits the path MTU, for every suite and every PMTU admitting one payload byte *)
Theorem C15_fits : forall pmtu m n,
  min_pmtu m <= eff_pmtu pmtu -> 0 < n <= max_payload pmtu m ->
  record_len m n <= eff_pmtu pmtu.
Proof. exact record_fits. Qed.
Print Assumptions C15_fits.

Theorem C15_plain_bound : forall pmtu m, 1 <= max_payload pmtu m <= 16384.
Proof. exact max_payload_bounds. Qed.
Print Assumptions C15_plain_bound.

(* larger writes are split in order, nothing lost, every piece within the maximum payload *)
Theorem C15_split_in_order : forall n maxp,
  0 <= n -> 1 <= maxp ->
  let cs := chunks (Z.to_nat n) n maxp in
  fold_right Z.add 0 cs = n /\
  Forall (fun c => 0 < c <= maxp) cs /\
  (forall i, (S i < length cs)%nat -> nth i cs 0 = maxp).
Proof. exact chunks_spec. Qed.
Print Assumptions C15_split_in_order.

Theorem C15_every_datagram_fits : forall pmtu m n,
  min_pmtu m <= eff_pmtu pmtu -> 0 <= n ->
  Forall (fun d => d <= eff_pmtu pmtu) (write_datagrams pmtu m n).
Proof. exact write_datagrams_fit. Qed.
Print Assumptions C15_every_datagram_fits.

(* findings, as refutations of the full statement on the faithful model *)
Theorem C15_empty_writeto_one_datagram : forall pmtu m, write_datagrams pmtu m 0 = [record_len m 0].   (* K5, fixed *)
Proof. exact empty_write_one_datagram. Qed.
Print Assumptions C15_empty_writeto_one_datagram.

Theorem C15_fits_cbc_refuted_before_fix :                                                (* F9, fixed *)
  exists pmtu n, 0 < n <= max_payload_old pmtu MCbc /\ eff_pmtu pmtu < record_len MCbc n.
Proof. exact old_cbc_bound_refuted. Qed.
Print Assumptions C15_fits_cbc_refuted_before_fix.

(* a buffered flight (and every retransmission of it) is packed at record boundaries into
   datagrams none of which exceeds the path MTU; the records leave complete and in order *)
Theorem C15_flight_fits : forall pmtu recs,
  Forall (fun r => 0 < r <= eff_pmtu pmtu) recs ->
  Forall (fun d => 0 < d <= eff_pmtu pmtu) (flight_datagrams pmtu recs) /\
  fold_right Z.add 0 (flight_datagrams pmtu recs) = fold_right Z.add 0 recs.
Proof. exact flight_fits. Qed.
Print Assumptions C15_flight_fits.

Theorem C15_flight_refuted_before_fix :                                                  (* K3, fixed *)
  exists pmtu recs, Forall (fun r => r <= eff_pmtu pmtu) recs /\ eff_pmtu pmtu < flush_datagram recs.
Proof. exact flight_exceeds_pmtu. Qed.
Print Assumptions C15_flight_refuted_before_fix.

Example C15_example : max_payload 1400 MCbc = 1327 /\ record_len MCbc 1327 = 1389 /\ min_pmtu MCbc = 77.
Proof. vm_compute. repeat split; reflexivity. Qed.

(* the numbers and tables this property's model uses are the ones the sources declare: Model/GenConsts.v is
   regenerated from the repository under test (tools/consts) before every build *)
From V Require Import Model.GenConsts Proofs.TieC15.
Theorem C15_constants_are_the_sources : TieC15.tie.
Proof. exact TieC15.tie_holds. Qed.
Print Assumptions C15_constants_are_the_sources.
