(* C11 — The session cache is a correct bounded LRU that never harms a live session.
   Property theorems only; proofs live in Proofs/LruProofs.v. *)
From V Require Import Model.Lru Proofs.LruProofs.

(* never more entries than the capacity, over every operation sequence *)
Theorem C11_capacity : forall c0 os,
  (length (ents (fst (run (lru_init c0) os))) <= cap (fst (run (lru_init c0) os)))%nat
  /\ cap (fst (run (lru_init c0) os)) = (if Nat.ltb c0 1 then 64 else c0)%nat.
Proof. intros; split; [apply lru_capacity | apply lru_cap_const]. Qed.
Print Assumptions C11_capacity.

(* never two entries for one key *)
Theorem C11_nodup : forall c0 os, NoDup (map fst (ents (fst (run (lru_init c0) os)))).
Proof. exact lru_nodup. Qed.
Print Assumptions C11_nodup.

(* every Get of every operation sequence returns what the timestamp-LRU map returns:
   the latest value stored under the key unless it was deleted or was the entry with
   the oldest use when room was needed *)
Theorem C11_refines_timestamp_lru : forall c0 os,
  snd (run (lru_init c0) os) = snd (srun (spec_init c0) os).
Proof. exact lru_refines_spec. Qed.
Print Assumptions C11_refines_timestamp_lru.

Theorem C11_contents_agree : forall c0 os k,
  lookup k (ents (fst (run (lru_init c0) os))) =
  option_map fst (slookup k (smap (fst (srun (spec_init c0) os)))).
Proof. exact lru_contents_agree. Qed.
Print Assumptions C11_contents_agree.

Theorem C11_spec_bounded : forall c0 os,
  (length (smap (fst (srun (spec_init c0) os))) <= scap (fst (srun (spec_init c0) os)))%nat.
Proof. exact spec_capacity. Qed.
Print Assumptions C11_spec_bounded.

(* the numbers and tables this property's model uses are the ones the sources declare: Model/GenConsts.v is
   regenerated from the repository under test (tools/consts) before every build *)
From V Require Import Model.GenConsts Proofs.TieC11.
Theorem C11_constants_are_the_sources : TieC11.tie.
Proof. exact TieC11.tie_holds. Qed.
Print Assumptions C11_constants_are_the_sources.
