(* C18 — A DTLCP server commits and amplifies nothing before a valid cookie returns.
   Property theorems only; proofs live in Proofs/CookieProofs.v.
   HMAC-SM3 is a parameter of the statements; the idealisation "distinct (key, message) pairs
   never collide" appears as an explicit premise of C18_binding, not as an axiom. *)
From V Require Import Model.Cookie Proofs.CookieProofs.

Theorem C18_enc_injective : forall a p a' p',
  length a < 65536 -> length a' < 65536 ->
  enc a p = enc a' p' -> a = a' /\ p = p'.
Proof. exact enc_injective. Qed.
Print Assumptions C18_enc_injective.

Theorem C18_params_injective : forall h h',
  wf_hello h -> wf_hello h' ->
  marshal_for_cookie h = marshal_for_cookie h' ->
  h_vers h = h_vers h' /\ h_random h = h_random h' /\ h_sid h = h_sid h' /\
  h_suites h = h_suites h' /\ h_comp h = h_comp h'.
Proof. exact params_injective. Qed.
Print Assumptions C18_params_injective.

(* a cookie is accepted only for exactly the secret, address and covered fields it was issued
   for (premise: HMAC idealised as collision-free in key and message) *)
Theorem C18_binding : forall hmac : list byte -> list byte -> list byte,
  (forall k m k' m', hmac k m = hmac k' m' -> k = k' /\ m = m') ->
  forall secret addr h secret' addr' h',
    length addr < 65536 -> length addr' < 65536 -> wf_hello h -> wf_hello h' ->
    verify_cookie hmac secret' addr' (marshal_for_cookie h')
      (gen_cookie hmac secret addr (marshal_for_cookie h)) = true ->
    secret' = secret /\ addr' = addr /\
    h_vers h' = h_vers h /\ h_random h' = h_random h /\ h_sid h' = h_sid h /\
    h_suites h' = h_suites h /\ h_comp h' = h_comp h.
Proof. exact cookie_binding. Qed.
Print Assumptions C18_binding.

(* "when no secret is configured each server connection draws its own random one": nil and the
   empty slice both count as unconfigured, and a cookie computed under any key other than the
   connection's own draw (the empty key, another connection's draw) is not accepted *)
Theorem C18_unconfigured_secret_is_drawn : forall hmac : list byte -> list byte -> list byte,
  (forall k m k' m', hmac k m = hmac k' m' -> k = k' /\ m = m') ->
  forall configured drawn,
    (length configured = 0 -> effective_secret configured drawn = drawn) /\
    (length configured <> 0 -> effective_secret configured drawn = configured) /\
    (forall other addr p addr' p', length configured = 0 ->
       verify_cookie hmac (effective_secret configured drawn) addr p (gen_cookie hmac other addr' p') = true ->
       other = drawn).
Proof. exact unconfigured_secret. Qed.
Print Assumptions C18_unconfigured_secret_is_drawn.

Theorem C18_roundtrip : forall hmac secret addr params,
  verify_cookie hmac secret addr params (gen_cookie hmac secret addr params) = true.
Proof. exact cookie_roundtrip. Qed.
Print Assumptions C18_roundtrip.

(* until a hello carries a valid cookie: one HelloVerifyRequest per hello, carrying the cookie
   for that very hello; no key operation, no certificate byte *)
Theorem C18_only_hvr : forall hmac secret addr hs outs eff acc,
  cookie_loop hmac secret addr hs = (outs, eff, acc) ->
  key_ops eff = 0 /\ cert_bytes eff = 0 /\
  length outs <= length hs /\
  (acc = None -> length outs = length hs) /\
  (forall i h, nth_error hs i = Some h -> i < length outs ->
     nth_error outs i = Some (HVR (gen_cookie hmac secret addr (marshal_for_cookie h)))) /\
  (forall h, acc = Some h ->
     h_cookie h <> [] /\ verify_cookie hmac secret addr (marshal_for_cookie h) (h_cookie h) = true /\
     nth_error hs (length outs) = Some h).
Proof. exact only_hvr. Qed.
Print Assumptions C18_only_hvr.

Theorem C18_no_amplification : forall (h : hello) cookie,
  length cookie = 32 -> 1 <= length (h_suites h) -> 1 <= length (h_comp h) ->
  hvr_datagram_len cookie = 60 /\ hvr_datagram_len cookie <= client_hello_min_datagram_len h.
Proof. exact (no_amplification (fun _ _ => [])). Qed.
Print Assumptions C18_no_amplification.

(* the encoding used before the fix (address immediately followed by the parameters) is not
   injective: finding F10 *)
Theorem C18_enc_old_refuted : exists a p a' p', (a, p) <> (a', p') /\ enc_old a p = enc_old a' p'.
Proof. exact enc_old_refuted. Qed.
Print Assumptions C18_enc_old_refuted.

(* the numbers and tables this property's model uses are the ones the sources declare: Model/GenConsts.v is
   regenerated from the repository under test (tools/consts) before every build *)
From V Require Import Model.GenConsts Proofs.TieC18.
Theorem C18_constants_are_the_sources : TieC18.tie.
Proof. exact TieC18.tie_holds. Qed.
Print Assumptions C18_constants_are_the_sources.
