(* C14 — Handshake message encoding and decoding are inverse, strict and total.
   Property theorems only; the models are Model/Codec*.v, the proofs Proofs/Codec*Proofs.v.
   st ranges over the two header forms (ST = tlcp, 4 bytes; SD = dtlcp, 12 bytes), m over the ten
   message types; decode / encode are the twenty Go unmarshal / marshal functions under one
   signature (Model/CodecAll.v). *)
From V Require Import Model.Codec Model.CodecT Model.CodecD Model.CodecSpec Model.CodecAll
  Proofs.CodecHelloProofs Proofs.CodecAllProofs.
Open Scope N_scope.

(* total: every decoder returns accept or reject for every byte string; the model's Panic (an
   index or slice out of range in the Go code, or a loop bound exceeded) is unreachable *)
Theorem C14_total : forall st m bs site, decode st m bs <> Panic site.
Proof. exact all_total. Qed.
Print Assumptions C14_total.

(* inverse, first half: for field values within the ranges of the standard's vectors the
   encoding exists and decodes to the same fields, for both stacks and all ten message types
   (no exception: a dtlcp ClientHello keeps all its supported groups / signature algorithms).
   The header comes back as decoded_hdr: nothing for tlcp; for dtlcp (message_seq, 0, body
   length), where wf asks for a stored header (message_seq, 0, 0 = "whole message") *)
Theorem C14_decode_encode : forall st m h f, wf st m h f ->
  exists bs, encode st m h f = Some bs /\ decode st m bs = Ok (decoded_hdr st bs h, f).
Proof. exact all_decode_encode. Qed.
Print Assumptions C14_decode_encode.

(* inverse, second half: a byte string that decodes and is canonical re-encodes to itself.
   canonical = framed as readHandshake frames it (type byte, length field = size - header and,
   dtlcp, fragment_offset = 0 and fragment_length = length), and for the two hello messages
   accepted by the canonical parser of Model/CodecSpec.v, which admits exactly: extensions in
   the order marshal writes them, each at most once, a non-empty extension block if there is
   one, no unknown extension / identifier / name / status type, one host_name, empty OCSP
   responder list and request extensions, non-empty OCSP response / ClientID *)
Theorem C14_encode_decode : forall st m bs h f, decode st m bs = Ok (h, f) -> bytes_ok bs ->
  canonical st m bs = true -> encode st m h f = Some bs.
Proof. exact all_encode_decode. Qed.
Print Assumptions C14_encode_decode.

(* strict: on framed input, whatever a decoder accepts has inner lengths that tile the outer
   one exactly, with no trailing byte (strict is the independent length walk of CodecSpec.v) *)
Theorem C14_strict_framed : forall st m bs h f, decode st m bs = Ok (h, f) -> bytes_ok bs ->
  outer_ok st bs = true -> (st = SD -> frag_whole bs = true) -> strict st m bs = true.
Proof. exact all_strict. Qed.
Print Assumptions C14_strict_framed.

(* the decoders that check the header length themselves (tlcp finished, clientKeyExchange,
   certificateRequest; dtlcp clientKeyExchange, certificateRequest) are strict on any input;
   the others rely on the framing (findings K7 / K8: see the examples below) *)
Theorem C14_strict_unframed : forall st m bs h f, checks_outer st m = true ->
  decode st m bs = Ok (h, f) -> bytes_ok bs -> len bs < 4294967296 -> strict st m bs = true.
Proof. exact self_strict. Qed.
Print Assumptions C14_strict_unframed.

(* hypotheses are satisfiable: a ServerHello with all three extensions round-trips in both forms *)
Example C14_example :
  let x := mkSH 257 (repeat 7 32) [1; 2; 3] 57363 0 true [48; 3; 10; 1; 0] [104; 50] true in
  decode ST mSH (T_sh_enc x) = Ok (h0, FSH x) /\
  decode SD mSH (D_sh_enc (mkDH 5 0 0, x)) = Ok (mkDH 5 0 (len (sh_body_enc x)), FSH x) /\
  canonical ST mSH (T_sh_enc x) = true /\ strict SD mSH (D_sh_enc (mkDH 5 0 0, x)) = true.
Proof. vm_compute. repeat split; reflexivity. Qed.

(* the gaps (concrete inputs): accepted although the header length disagrees with the size *)
Example C14_gap_T_serverKeyExchange :
  decode ST mSKX [12; 0; 0; 5] = Ok (h0, FBlob []) /\ outer_ok ST [12; 0; 0; 5] = false.
Proof. vm_compute. split; reflexivity. Qed.
Example C14_gap_T_serverHelloDone :
  decode ST mSHD [14; 0; 0; 9] = Ok (h0, FNone) /\ outer_ok ST [14; 0; 0; 9] = false.
Proof. vm_compute. split; reflexivity. Qed.
Example C14_gap_T_certificate :
  decode ST mCERT [11; 0; 0; 255; 0; 0; 0] = Ok (h0, FCert []) /\ outer_ok ST [11; 0; 0; 255; 0; 0; 0] = false.
Proof. vm_compute. split; reflexivity. Qed.
Example C14_gap_T_certificateVerify :
  decode ST mCV [15; 9; 9; 9; 0; 1; 7] = Ok (h0, FBlob [7]) /\ outer_ok ST [15; 9; 9; 9; 0; 1; 7] = false.
Proof. vm_compute. split; reflexivity. Qed.
(* dtlcp serverHelloDone: a trailing byte is accepted *)
Example C14_gap_D_serverHelloDone :
  decode SD mSHD [14; 0; 0; 0; 0; 1; 0; 0; 0; 0; 0; 0; 255] = Ok (mkDH 1 0 0, FNone) /\
  outer_ok SD [14; 0; 0; 0; 0; 1; 0; 0; 0; 0; 0; 0; 255] = false.
Proof. vm_compute. split; reflexivity. Qed.
(* dtlcp finished: the length field decides the size of verify_data, the body is cut to
   fragment_length and zero-padded *)
Example C14_gap_D_finished :
  decode SD mFIN [20; 0; 0; 3; 0; 1; 0; 0; 0; 0; 0; 1; 170; 187] = Ok (mkDH 1 0 1, FBlob [170; 0; 0]).
Proof. vm_compute. reflexivity. Qed.
(* dtlcp ClientHello: two supported groups and two signature algorithms in, the same out
   (before fe30aba the decoder kept only the last value of each: finding K6, fixed) *)
Example C14_D_clientHello_groups :
  let x := mkCH 257 (repeat 7 32) [] [] [57363] [0] [] [] false [41; 23] [1799; 1800] [] [] in
  decode SD mCH (D_ch_enc (mkDH 0 0 0, x)) = Ok (mkDH 0 0 (len (ch_body_enc true x)), FCH x) /\
  canonical SD mCH (D_ch_enc (mkDH 0 0 0, x)) = true.
Proof. vm_compute. split; reflexivity. Qed.
(* a second supported_groups extension replaces the list in dtlcp and extends it in tlcp; neither
   form is canonical (finding K4) *)
Example C14_duplicate_groups :
  let x := mkCH 257 (repeat 7 32) [] [] [57363] [0] [] [] false [] [] [] [] in
  let exts := [0; 10; 0; 6; 0; 4; 0; 41; 0; 23; 0; 10; 0; 4; 0; 2; 0; 24] in
  let body := u16 257 ++ repeat 7 32 ++ vec8 [] in
  let rest := vec16 (u16s [57363]) ++ vec8 [0] ++ vec16 exts in
  decode SD mCH (d_msg tClientHello (mkDH 0 0 0) (body ++ vec8 [] ++ rest)) =
    Ok (mkDH 0 0 (len (body ++ vec8 [] ++ rest)), FCH (ch_set_curves x [24])) /\
  decode ST mCH (t_hdr tClientHello (body ++ rest)) = Ok (h0, FCH (ch_set_curves x [41; 23; 24])).
Proof. vm_compute. split; reflexivity. Qed.

(* the numbers and tables this property's model uses are the ones the sources declare: Model/GenConsts.v is
   regenerated from the repository under test (tools/consts) before every build *)
From V Require Import Model.GenConsts Proofs.TieC14.
Theorem C14_constants_are_the_sources : TieC14.tie.
Proof. exact TieC14.tie_holds. Qed.
Print Assumptions C14_constants_are_the_sources.
