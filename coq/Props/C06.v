(* C06 — The protected stream is delivered exactly, in order, within record size limits.
   Property theorems only; proofs live in Proofs/RecordTProofs.v. *)
From V Require Import Model.RecordT Proofs.RecordTProofs.

(* each Write is cut into records of 1..16384 plaintext bytes that sum to its length (Write
   reports the full length), with or without dynamic record sizing *)
Theorem C06_plain_bound : forall dyn_off m w n cs w',
  wst_ok w -> (0 <= n)%Z ->
  write_sizes (Z.to_nat n) dyn_off m w n = (cs, w') ->
  fold_right Z.add 0%Z cs = n /\ Forall (fun c => (1 <= c <= 16384)%Z) cs /\ wst_ok w'.
Proof. exact write_sizes_spec. Qed.
Print Assumptions C06_plain_bound.

(* ciphertext <= plaintext + 8+16 (GCM) / 16+32+16 (CBC) <= 16384 + 2048 *)
Theorem C06_cipher_bound : forall m c,
  (0 <= c <= 16384)%Z ->
  (wire_len m c - 5 <= c + match m with MGcm => 24 | MCbc => 64 end)%Z /\
  (wire_len m c - 5 <= 16384 + 2048)%Z /\ (c < wire_len m c - 5)%Z.
Proof. exact wire_len_bound. Qed.
Print Assumptions C06_cipher_bound.

(* closed form of the dynamic record size ramp (the exact oracle of the correspondence) *)
Theorem C06_ramp : forall m w,
  (bytes_sent w < boost)%Z -> (0 <= packets_sent w <= 1000)%Z ->
  fst (max_payload false m w) = Z.min 16384 (base_payload m * (packets_sent w + 1)) /\
  packets_sent (snd (max_payload false m w)) = (packets_sent w + 1)%Z.
Proof. exact ramp_closed_form. Qed.
Print Assumptions C06_ramp.

(* deframing does not depend on how the transport segments the bytes *)
Theorem C06_any_segmentation : forall (bodies : list (list byte)) (t : transport),
  Forall (fun b => length b < 65536) bodies ->
  wf_transport t ->
  concat t = concat (map frame bodies) ->
  read_records (S (length bodies)) [] t = bodies.
Proof. exact deframe_any_segmentation. Qed.
Print Assumptions C06_any_segmentation.

(* stream identity: any writes (any sizes incl. 0), any segmentation (down to one byte), any
   read-buffer sizes >= 1: the concatenation of the reads is the concatenation of the writes *)
Theorem C06_stream_identity : forall dyn_off m w (datas : list (list byte)) sizes w' t bufs
                                     (seal : list byte -> list byte),
  wst_ok w ->
  writes_sizes dyn_off m w (map (fun d => Z.of_nat (length d)) datas) = (sizes, w') ->
  let chunks := concat (map (fun '(d, s) => cut s d) (combine datas sizes)) in
  (forall c, length (seal c) < 65536) ->
  wf_transport t -> concat t = concat (map (fun c => frame (seal c)) chunks) ->
  Forall (fun b => 1 <= b) bufs -> length (concat datas) <= length bufs ->
  forall (open : list byte -> list byte), (forall c, open (seal c) = c) ->
  concat (conn_reads [] (map open (read_records (S (length chunks)) [] t)) bufs) = concat datas.
Proof. exact stream_identity. Qed.
Print Assumptions C06_stream_identity.

(* what has been read at any point is a prefix of what was written *)
Theorem C06_reads_are_prefix : forall recs bufs input,
  Forall (fun b => 1 <= b) bufs ->
  exists rest, concat (conn_reads input recs bufs) ++ rest = input ++ concat recs.
Proof. exact reads_are_prefix. Qed.
Print Assumptions C06_reads_are_prefix.

Example C06_example :
  fst (writes_sizes false MGcm (mkW 2000 0) [3000; 0; 20000]%Z) =
  [[1179; 1821]; []; [3537; 4716; 5895; 5852]]%Z.
Proof. vm_compute. reflexivity. Qed.

(* the numbers and tables this property's model uses are the ones the sources declare: Model/GenConsts.v is
   regenerated from the repository under test (tools/consts) before every build *)
From V Require Import Model.GenConsts Proofs.TieC06.
Theorem C06_constants_are_the_sources : TieC06.tie.
Proof. exact TieC06.tie_holds. Qed.
Print Assumptions C06_constants_are_the_sources.
