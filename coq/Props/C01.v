(* C01 — Honest handshakes end in agreement on every negotiated parameter.
   Property theorems only; proofs live in Proofs/NegotiateProofs.v.  "Bytes then written are
   read unchanged" is C06 (stream) and C15 (datagram); the correspondence also exchanges data. *)
From V Require Import Model.Negotiate Proofs.NegotiateProofs.
Open Scope N_scope.

(* on success the suite is the first one in the documented priority order (ECC-GCM, ECC-CBC,
   ECDHE-GCM, ECDHE-CBC) that both sides enabled and have keys for *)
Theorem C01_suite_is_first_common : forall c s o,
  honest_run c s = Some o -> common_suite c s = Some (o_suite o).
Proof. exact suite_is_first_common. Qed.
Print Assumptions C01_suite_is_first_common.

(* the handshake succeeds exactly when the two configurations are compatible *)
Theorem C01_success_iff_compatible : forall c s,
  (match honest_run c s with Some _ => true | None => false end) = compatible c s.
Proof. exact success_iff_compatible. Qed.
Print Assumptions C01_success_iff_compatible.

(* application protocol: the server's first protocol the client also lists; none when a side has
   no list or with the h2 / http/1.1 fallback; failure iff disjoint without fallback *)
Theorem C01_alpn_spec : forall srv cli,
  (srv = [] \/ cli = [] -> alpn_pick srv cli = Some 0) /\
  (srv <> [] -> cli <> [] ->
     forall p, alpn_pick srv cli = Some p -> p <> 0 ->
       In p srv /\ In p cli /\
       (forall pre post, srv = pre ++ p :: post -> ~ In p pre -> forall q, In q pre -> ~ In q cli)) /\
  (srv <> [] -> cli <> [] -> (forall q, In q srv -> ~ In q cli) ->
     alpn_pick srv cli = (if memN H2 srv && memN HTTP11 cli then Some 0 else None)).
Proof. exact alpn_spec. Qed.
Print Assumptions C01_alpn_spec.

(* the client offers only suites it is configured for and has keys for, and never accepts another *)
Theorem C01_offer_sound : forall c id,
  In id (client_offer c) ->
  In id preference /\ memN id (cfg_suites (c_suites c)) = true /\
  (is_ecdhe id = true -> c_has_sig c = true /\ c_has_enc c = true).
Proof. exact offer_sound. Qed.
Print Assumptions C01_offer_sound.

Theorem C01_picked_was_offered : forall c s suite,
  server_pick s (client_offer c) = Some suite -> In suite (client_offer c).
Proof. exact picked_was_offered. Qed.
Print Assumptions C01_picked_was_offered.

Example C01_example :
  honest_run (mkC (Some [ECDHE_CBC; ECC_CBC]) true true [1; 2] false 0 0 true true)
             (mkS None true RequireAndVerifyClientCert [3; 2] 0 0 true true)
  = Some (mkO ECC_CBC 2 2 true).
Proof. vm_compute. reflexivity. Qed.

(* the numbers and tables this property's model uses are the ones the sources declare: Model/GenConsts.v is
   regenerated from the repository under test (tools/consts) before every build *)
From V Require Import Model.GenConsts Proofs.TieSuites.
Theorem C01_suite_table_is_the_sources : TieSuites.suites_tie.
Proof. exact TieSuites.suites_tie_holds. Qed.
Print Assumptions C01_suite_table_is_the_sources.
