(* C10 — Session resumption is sound and falls back transparently.
   Property theorems only; proofs live in Proofs/ResumeProofs.v. *)
From V Require Import Model.Resume Proofs.ResumeProofs.
Open Scope N_scope.

(* a connection is resumed exactly when the client offered a session the server still holds, for a
   suite both still enable, under a policy the session satisfies *)
Theorem C10_resume_iff : forall w k w' r,
  connect w k = (w', r) ->
  (r_resumed r = true <->
   exists i a,
     r_offered r = Some i /\ tlookup i (table w) = Some a /\
     snd (get (match sc_get (k_srv k) (scaches w) with Some c => c | None => lru_init 64 end) (key_id i)) = Some i /\
     memN (sa_suite a) (k_offer k) = true /\ memN (sa_suite a) (k_srv_suites k) = true /\
     k_srv_keys k = true /\
     session_satisfies (k_policy k) (mkSeV (sa_ncerts a) (k_sess_chain_ok k) (is_ecdhe (sa_suite a))) = true).
Proof. exact resume_iff. Qed.
Print Assumptions C10_resume_iff.

(* otherwise a full handshake happens and its outcome is that of the same connection with an
   empty client cache *)
Theorem C10_fallback : forall w k w' r w0' r0,
  connect w k = (w', r) -> r_resumed r = false ->
  connect (mkW (lru_init (cap (ccache w))) (scaches w) (table w) (next w)) k = (w0', r0) ->
  r_ok r = r_ok r0 /\ r_new r = r_new r0 /\ table w' = table w0' /\ next w' = next w0' /\
  r_resumed r0 = false.
Proof. exact fallback_transparent. Qed.
Print Assumptions C10_fallback.

(* a session whose handshake failed is not offered again *)
Theorem C10_failed_not_reoffered : forall w k w' r i,
  connect w k = (w', r) -> r_ok r = false -> r_offered r = Some i ->
  snd (get (ccache w') (key_dst (k_srv k))) = None /\ snd (get (ccache w') (key_id i)) = None.
Proof. exact failed_not_reoffered. Qed.
Print Assumptions C10_failed_not_reoffered.

(* over every history: new sessions get fresh identifiers *)
Theorem C10_fresh_ids : forall ccap scaps es,
  let w := reach ccap scaps es in
  NoDup (map fst (table w)) /\ Forall (fun e => fst e < next w) (table w) /\ 1 <= next w.
Proof. exact fresh_ids. Qed.
Print Assumptions C10_fresh_ids.

(* over every history: the session kept for a destination was created with that very server, so a
   resumed connection has the same peer identity as the original *)
Theorem C10_same_identity : forall ccap scaps es j i,
  let w := reach ccap scaps es in
  lookup (key_dst j) (ents (ccache w)) = Some i ->
  exists a, tlookup i (table w) = Some a /\ sa_srv a = j.
Proof. exact dst_entry_belongs_to_server. Qed.
Print Assumptions C10_same_identity.

(* over every history: a forged or stale identifier is never resumed *)
Theorem C10_forged_never_resumed : forall ccap scaps es k w' r i a,
  let w := reach ccap scaps es in
  connect w k = (w', r) -> r_offered r = Some i -> tlookup i (table w) = Some a ->
  sa_forged a = true -> r_resumed r = false.
Proof. exact forged_never_resumed. Qed.
Print Assumptions C10_forged_never_resumed.

(* the numbering of the client-authentication policies (the library compares them numerically) is the one the
   sources declare: Model/GenConsts.v is regenerated from the repository under test (tools/consts) before every build *)
From V Require Import Model.GenConsts Proofs.TieC07.
Theorem C10_policy_numbering_is_the_sources : TieC07.tie.
Proof. exact TieC07.tie_holds. Qed.
Print Assumptions C10_policy_numbering_is_the_sources.
