(* C19 — The DTLCP handshake survives datagram loss, duplication and reordering.
   Property theorems only (model: Model/DSim.v; proofs: Proofs/DSimProofs.v). *)
From V Require Import Model.DSim.

Lemma all_cfgs_complete : forall c, In c all_cfgs.
Proof. intros [[] [] []]; simpl; tauto. Qed.

(* with no fault at all both endpoints complete, application data flows in both directions, and
   no deadline expires before both have completed *)
Theorem C19_fault_free : forall c, good_run c [] = true.
Proof.
  intros c. pose proof (all_cfgs_complete c) as H.
  assert (A : forallb (fun c => good_run c []) all_cfgs = true) by (vm_compute; reflexivity).
  rewrite forallb_forall in A. exact (A c H).
Qed.
Print Assumptions C19_fault_free.
