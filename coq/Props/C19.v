(* C19 — The DTLCP handshake survives datagram loss, duplication and reordering.
   Property theorems only.  Model: Model/DSim.v (both endpoints, timers, the faulty virtual-time
   network and the ping/pong application); proofs: Proofs/DSim*.v.  good_run c fs says: the run
   ends, both endpoints complete, "ping" reaches the server and "pong" the client and only after the
   respective completion, both completions within `allowed fs` (one retransmission timeout of the
   schedule 100, 200, 400, ... per fault, plus the injected delays), and when fs = [] no deadline
   expires before both have completed. *)
From V Require Import Model.DSim Proofs.DSimProofs.

(* no fault at all: every configuration (full / abbreviated handshake, with / without client
   authentication, either order of simultaneous expiries) *)
Theorem C19_fault_free : forall c, good_run c [] = true.
Proof. exact fault_free. Qed.
Print Assumptions C19_fault_free.

(* every pattern of at most two lost, duplicated or delayed datagrams: ANY datagram of either
   direction (the index is not bounded), delays of 30, 150, 450 or 1200 ms *)
Theorem C19_survives_two_faults : forall c fs,
  (length fs <= 2)%nat -> Forall in_space fs -> good_run c fs = true.
Proof. exact survives_two_faults. Qed.
Print Assumptions C19_survives_two_faults.

(* every pattern of at most three (delays of 150 ms) *)
Theorem C19_survives_three_faults : forall c fs,
  (length fs <= 3)%nat -> Forall in_space3 fs -> good_run c fs = true.
Proof. exact survives_three_faults. Qed.
Print Assumptions C19_survives_three_faults.

(* for EVERY fault script (any number of faults) and any number of steps: *)
(* application data is never delivered to an endpoint before its handshake completed *)
Theorem C19_no_early_data : forall fuel c fs,
  got_before_done false false (rev (trace (fst (run fuel c fs init)))) = false.
Proof. exact no_early_data. Qed.
Print Assumptions C19_no_early_data.

(* an endpoint completes only after a datagram carrying the peer's Finished was handed to it *)
Theorem C19_done_only_after_peer_finished : forall fuel c fs s,
  done_after_fin s [] false (rev (trace (fst (run fuel c fs init)))) = true.
Proof. exact done_only_after_peer_finished. Qed.
Print Assumptions C19_done_only_after_peer_finished.

(* the retransmission timeout only takes the values of the schedule: initial, doubling, capped *)
Theorem C19_timeouts_follow_schedule : forall fuel c fs,
  let n := fst (run fuel c fs init) in In (cur (cl n)) schedule /\ In (cur (sv n)) schedule.
Proof. exact timeouts_follow_schedule. Qed.
Print Assumptions C19_timeouts_follow_schedule.

(* non-vacuity: a script with two faults that forces retransmissions on both sides *)
Example C19_example :
  good_run (mkCfg false true false) [mkFault Sv 1 FDrop 0; mkFault Cl 3 FDelay 450] = true /\
  in_space (mkFault Cl 3 FDelay 450).
Proof. split; [vm_compute; reflexivity | unfold in_space, delay_set; cbn; tauto]. Qed.
