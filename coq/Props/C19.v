(* C19 — The DTLCP handshake survives datagram loss, duplication and reordering. *)
From V Require Import Model.DSim.

Definition good_run (c : cfg) (fs : list fault) : bool :=
  let '(n, finished) := simulate c fs in
  let t := rev (trace n) in
  finished && complete (cl n) && complete (sv n) && got Cl t && got Sv t.

Definition all_cfgs : list cfg :=
  [mkCfg false false false; mkCfg false false true; mkCfg false true false; mkCfg false true true;
   mkCfg true false false; mkCfg true false true; mkCfg true true false; mkCfg true true true].

Lemma all_cfgs_complete : forall c, In c all_cfgs.
Proof. intros [[] [] []]; simpl; tauto. Qed.

(* with no fault the handshake completes, application data flows both ways *)
Theorem C19_fault_free_completes : forall c, good_run c [] = true.
Proof.
  intros c. pose proof (all_cfgs_complete c) as H.
  assert (A : forallb (fun c => good_run c []) all_cfgs = true) by (vm_compute; reflexivity).
  rewrite forallb_forall in A. exact (A c H).
Qed.
Print Assumptions C19_fault_free_completes.
