(* C03 — Tampering with a handshake never yields two completed endpoints that differ.
   Property theorems only; the model is Model/Mitm.v (two endpoints with their running
   transcripts, an adversary that owns the channel), the concrete instances Model/MitmWire.v, the
   proofs Proofs/MitmProofs.v and Proofs/MitmWireProofs.v.

   Reading guide.  `run K PCl PSv hello sch` delivers the records of the schedule `sch` -- ANY list
   of (endpoint, record) pairs, of any length: altered, dropped, duplicated, reordered, truncated,
   re-framed or invented records, also after the ChangeCipherSpec -- to a client and a server whose
   message contents (PCl, PSv: what they send, and every check they apply besides the Finished)
   are arbitrary.  The premises are the idealisations of SM3 and the PRF (`crypto_ideal`), that
   what the endpoints generate is framed and the server's flight ends with its only
   ServerHelloDone (`gens_ok`), and `no_forgery`: a verify_data value an endpoint accepted was put
   on the wire by one of the two endpoints (the adversary may replay or reflect, it does not
   compute PRF(master, ..): it holds no master secret -- C02 / C07 are about that).           *)
From V Require Import Model.Mitm Model.MitmWire Model.CodecAll
  Proofs.MitmProofs Proofs.MitmWireProofs Proofs.CodecAllProofs.
Open Scope N_scope.

(* stream stack: if both endpoints complete, the server's chronological log of what it wrote and
   what it accepted is the mirror image of the client's: every handshake message and the
   ChangeCipherSpec each endpoint accepted is byte for byte, and in the same order, what the other
   wrote (re-framing into other records is the only freedom the adversary has) *)
Theorem C03_complete_implies_same_transcript : forall K PCl PSv hello sch,
  crypto_ideal K -> fin_canonical K -> gens_ok 4 K PCl PSv -> framedb 4 hello = true ->
  let st := run K PCl PSv hello sch in
  let c := t_hs (fst st) in let s := t_hs (snd st) in
  no_forgery c s -> both_done st = true ->
  sh_log s = mirror (ch_log c) /\
  accepted_items (ch_log c) = sent_items (sh_log s) /\
  accepted_items (sh_log s) = sent_items (ch_log c).
Proof. exact stream_same_transcript. Qed.
Print Assumptions C03_complete_implies_same_transcript.

(* hence identical views: both agree on full / resumed, both Finished values are the same on both
   sides, and (whatever the Finished codec) the logs are mirror images up to the last Finished
   message, whose verify_data agrees: every negotiated parameter -- a function of the ServerHello
   and Certificate bytes in the transcript -- is the same *)
Theorem C03_same_view : forall K PCl PSv hello sch,
  crypto_ideal K -> gens_ok 4 K PCl PSv -> framedb 4 hello = true ->
  let st := run K PCl PSv hello sch in
  let c := t_hs (fst st) in let s := t_hs (snd st) in
  no_forgery c s -> both_done st = true ->
  ch_res c = sh_res s /\ ch_fin_out c = sh_fin_in s /\ ch_fin_in c = sh_fin_out s /\
  mirrored_upto_last_fin K (ch_log c) (sh_log s).
Proof. exact stream_same_view. Qed.
Print Assumptions C03_same_view.

(* no downgrade: the transcript of both is the one of the untampered handshake -- the client's
   real hello, the flight the server generates for THAT hello, the client's answer to it --
   followed by the two Finished messages *)
Theorem C03_no_downgrade : forall K PCl PSv hello sch,
  crypto_ideal K -> gens_ok 4 K PCl PSv -> framedb 4 hello = true ->
  let st := run K PCl PSv hello sch in
  let c := t_hs (fst st) in let s := t_hs (snd st) in
  no_forgery c s -> both_done st = true ->
  (exists fa fb, msgs_of (ch_log c) = honest_pre PCl PSv hello ++ [fa; fb]) /\
  (exists fa fb, msgs_of (sh_log s) = honest_pre PCl PSv hello ++ [fa; fb]).
Proof. exact stream_no_downgrade. Qed.
Print Assumptions C03_no_downgrade.

(* the parameters the client derives from the ServerHello it accepted are the ones the server
   encoded (C14 decode-after-encode), for both header forms *)
Theorem C03_hello_fields_survive : forall st h x bs,
  wf st mSH h (FSH x) -> encode st mSH h (FSH x) = Some bs ->
  sh_view st bs = Some (mkV (sh_vers x) (sh_suite x) (sh_sid x) (sh_alpn x)).
Proof.
  intros st h x bs W E. destruct (all_decode_encode st mSH h (FSH x) W) as (bs' & E' & D).
  rewrite E in E'. injection E' as <-. unfold sh_view. rewrite D. destruct st; reflexivity.
Qed.
Print Assumptions C03_hello_fields_survive.

(* datagram stack: the endpoints additionally drop records (other epoch, replayed, a
   ChangeCipherSpec that cannot be used yet, retransmissions while the ChangeCipherSpec is
   awaited, retransmitted ClientHellos) and run the cookie exchange first.  If both complete,
   each handshake state is a run of the same handshake-layer automaton over an ordered selection
   `core` of what was delivered (everything else was discarded), started from a hello the client
   really sent, and the agreement of the stream stack holds for these: mirrored logs up to the
   last Finished (whose header carries the unauthenticated message_seq; its verify_data agrees),
   same mode, same Finished values, the untampered transcript *)
Theorem C03_dgram_complete_implies_same_transcript : forall K PCl PSv sch c s,
  crypto_ideal K -> gens_ok 12 K (dcs_side PCl) (dss_side PSv) ->
  framedb 12 (dcs_hello0 PCl) = true -> (forall hvr, framedb 12 (dcs_hello PCl hvr) = true) ->
  Forall (fun a => gev_framed (snd a)) sch ->
  dc_ph (fst (drun K PCl PSv sch)) = DCMain c -> ds_ph (snd (drun K PCl PSv sch)) = DSMain s ->
  no_forgery c s -> c_done c = true -> s_done s = true ->
  exists hello core_c core_s,
    hello_origin PCl hello /\
    sublist core_c (gitems (to_client sch)) /\ c = chs_run K (dcs_side PCl) hello core_c /\
    sublist core_s (gitems (to_server sch)) /\ s = shs_run K (dss_side PSv) core_s /\
    agreement K (dcs_side PCl) (dss_side PSv) hello c s.
Proof. exact dgram_agreement. Qed.
Print Assumptions C03_dgram_complete_implies_same_transcript.

(* No panic, the part that is logic.  The full statement -- no tampering makes either endpoint
   panic -- is about the whole implementation; what is proved is that the layers modelled here
   cannot: the reassembly buffer of Model/Mitm.v indexes only below the length it has checked
   (`pop` is a total function without a failure outcome), and an endpoint driven through
   readHandshake's type switch and the C14 decoders (the only modelled code with an explicit Panic
   outcome) never reaches it, whatever bytes it is handed.  Missing: the contents layer (key
   exchange processing, certificate parsing, signature verification, session lookup) is a
   parameter of the model; that it does not panic under tampering is only observed, by the
   correspondence (every byte position of full and resumed handshakes of both stacks mutated with
   three masks, every record-level edit: no panic). *)
Theorem C03_no_panic_partial : forall A st (step : A -> witem -> A) (fail : A -> A) its a site,
  guarded_run st step fail a its <> Panicked site.
Proof. exact guarded_run_total. Qed.
Print Assumptions C03_no_panic_partial.

(* the tlcp Finished codec is canonical, and the free hash / PRF satisfy the idealisations: the
   hypotheses above are satisfiable *)
Theorem C03_tlcp_finished_canonical : forall m v, t_fin_parse m = Some v -> m = t_fin_mk v.
Proof. exact t_fin_canonical. Qed.
Print Assumptions C03_tlcp_finished_canonical.

(* ------------------------------------------------------------------ non-vacuity *)
Definition toy_hello : msg := [1; 0; 0; 1; 7].
Definition toy_f1 : list msg := [[2; 0; 0; 1; 9]; [11; 0; 0; 0]; [12; 0; 0; 0]; [14; 0; 0; 0]].
Definition toy_f2 : list msg := [[16; 0; 0; 1; 5]].
Definition toy_c : cside := mkCS (fun _ _ => true) (fun _ _ => false) (fun _ => false) (fun _ _ => true) (fun _ => toy_f2) (fun _ => []).
Definition toy_s : sside := mkSS (fun _ => true) (fun _ => false) (fun _ => false) (fun _ => toy_f1) (fun _ => false) (fun _ _ => true) (fun _ => []).

Definition last_msg (l : list witem) : msg :=
  match last l WCcs with WMsg m => m | WCcs => [] end.

Definition toy_sched1 : schedule :=
  (PS, RHs toy_hello) :: map (fun m => (PC, RHs m)) toy_f1.
Definition toy_finc : msg := last_msg (sent_items (ch_log (t_hs (fst (run free_crypto toy_c toy_s toy_hello toy_sched1))))).
Definition toy_sched2 : schedule := toy_sched1 ++ [(PS, RHs [16; 0; 0; 1; 5]); (PS, RCcs); (PS, RHs toy_finc)].
Definition toy_fins : msg := last_msg (sent_items (sh_log (t_hs (snd (run free_crypto toy_c toy_s toy_hello toy_sched2))))).
Definition toy_sched : schedule := toy_sched2 ++ [(PC, RCcs); (PC, RHs toy_fins)].
(* the same with one byte of the ClientHello altered on its way to the server: the server accepts
   the hello, answers, and refuses the client's Finished; it never writes its own, so there is
   nothing the adversary could deliver to the client without inventing a verify_data *)
Definition toy_tampered : schedule := (PS, RHs [1; 0; 0; 1; 8]) :: tl toy_sched2.

Example C03_hypotheses_satisfiable :
  crypto_ideal free_crypto /\ fin_canonical free_crypto /\ gens_ok 4 free_crypto toy_c toy_s /\
  framedb 4 toy_hello = true /\
  (let st := run free_crypto toy_c toy_s toy_hello toy_sched in
   both_done st = true /\ no_forgery (t_hs (fst st)) (t_hs (snd st))) /\
  (let st := run free_crypto toy_c toy_s toy_hello toy_tampered in
   no_forgery (t_hs (fst st)) (t_hs (snd st)) /\ both_done st = false).
Proof.
  split; [exact free_crypto_ideal|]. split; [exact free_fin_canonical|]. split.
  - unfold gens_ok. split; [intros; apply free_fin_framed|]. split; [|split].
    + intros tr. cbn. repeat constructor.
    + intros ch. cbn. repeat constructor.
    + intros ch. cbn. exists [[2; 0; 0; 1; 9]; [11; 0; 0; 0]; [12; 0; 0; 0]], [14; 0; 0; 0].
      split; [reflexivity|]. split; [reflexivity|]. split; [|discriminate].
      repeat constructor; cbn; discriminate.
  - split; [reflexivity|]. split.
    + split; [vm_compute; reflexivity|]. apply no_forgery_b_sound. vm_compute. reflexivity.
    + split; [apply no_forgery_b_sound; vm_compute; reflexivity|vm_compute; reflexivity].
Qed.

(* the same for the datagram stack: a cookie exchange, a record of another epoch, a
   ChangeCipherSpec that arrives too early, a retransmitted ClientHello while the client's flight
   is awaited -- all discarded -- around an untampered handshake *)
Definition dh (t : N) (n : N) : msg := [t; 0; 0; n; 0; 0; 0; 0; 0; 0; 0; n].
Definition dtoy_hello0 : msg := dh 1 0.
Definition dtoy_hello : msg := dh 1 1 ++ [7].
Definition dtoy_hvr : msg := dh 3 0.
Definition dtoy_f1 : list msg := [dh 2 1 ++ [9]; dh 11 0; dh 12 0; dh 14 0].
Definition dtoy_ckx : msg := dh 16 1 ++ [5].
Definition dtoy_c : dcside :=
  mkDCS dtoy_hello0 (fun _ => dtoy_hello)
        (mkCS (fun _ _ => true) (fun _ _ => false) (fun _ => false) (fun _ _ => true) (fun _ => [dtoy_ckx]) (fun _ => [])).
Definition dtoy_s : dsside :=
  mkDSS (fun m => bytes_eqb m dtoy_hello)
        (mkSS (fun _ => true) (fun _ => false) (fun _ => false) (fun _ => dtoy_f1) (fun _ => false) (fun _ _ => true) (fun _ => [])).

Definition dtoy_sched1 : dschedule :=
  [(PS, GMsg dtoy_hello0); (PC, GMsg dtoy_hvr); (PS, GMsg dtoy_hello); (PS, GOld);
   (PC, GMsg (dh 2 1 ++ [9])); (PC, GCcs); (PC, GMsg (dh 11 0)); (PC, GMsg (dh 12 0)); (PC, GMsg (dh 14 0))].
Definition dtoy_finc : msg := last_out_msg (dc_log (fst (drun free_crypto_d dtoy_c dtoy_s dtoy_sched1))).
Definition dtoy_sched2 : dschedule :=
  dtoy_sched1 ++ [(PS, GMsg dtoy_hello); (PS, GMsg dtoy_ckx); (PS, GCcs); (PS, GMsg dtoy_finc)].
Definition dtoy_fins : msg := last_out_msg (ds_log (snd (drun free_crypto_d dtoy_c dtoy_s dtoy_sched2))).
Definition dtoy_sched : dschedule := dtoy_sched2 ++ [(PC, GMsg (dh 14 0)); (PC, GCcs); (PC, GMsg dtoy_fins)].

Example C03_dgram_hypotheses_satisfiable :
  crypto_ideal free_crypto_d /\ gens_ok 12 free_crypto_d (dcs_side dtoy_c) (dss_side dtoy_s) /\
  framedb 12 (dcs_hello0 dtoy_c) = true /\ (forall hvr, framedb 12 (dcs_hello dtoy_c hvr) = true) /\
  Forall (fun a => gev_framed (snd a)) dtoy_sched /\
  exists c s, dc_ph (fst (drun free_crypto_d dtoy_c dtoy_s dtoy_sched)) = DCMain c /\
              ds_ph (snd (drun free_crypto_d dtoy_c dtoy_s dtoy_sched)) = DSMain s /\
              no_forgery c s /\ c_done c = true /\ s_done s = true.
Proof.
  split; [exact free_crypto_d_ideal|]. split.
  - unfold gens_ok. split; [intros; apply free_dfin_framed|]. split; [|split].
    + intros tr. cbn. repeat constructor.
    + intros ch. cbn. repeat constructor.
    + intros ch. cbn. exists [dh 2 1 ++ [9]; dh 11 0; dh 12 0], (dh 14 0).
      split; [reflexivity|]. split; [reflexivity|]. split; [|discriminate].
      repeat constructor; cbn; discriminate.
  - split; [reflexivity|]. split; [intros; reflexivity|]. split.
    + vm_compute. repeat constructor.
    + destruct (dc_ph (fst (drun free_crypto_d dtoy_c dtoy_s dtoy_sched))) as [|c] eqn:Ec; [vm_compute in Ec; discriminate|].
      destruct (ds_ph (snd (drun free_crypto_d dtoy_c dtoy_s dtoy_sched))) as [|s] eqn:Es; [vm_compute in Es; discriminate|].
      exists c, s. split; [reflexivity|]. split; [reflexivity|].
      vm_compute in Ec. injection Ec as <-. vm_compute in Es. injection Es as <-.
      split; [apply no_forgery_b_sound; vm_compute; reflexivity|]. split; vm_compute; reflexivity.
Qed.

(* the numbers and tables this property's model uses are the ones the sources declare: Model/GenConsts.v is
   regenerated from the repository under test (tools/consts) before every build *)
From V Require Import Model.GenConsts Proofs.TieC03.
Theorem C03_constants_are_the_sources : TieC03.tie.
Proof. exact TieC03.tie_holds. Qed.
Print Assumptions C03_constants_are_the_sources.
