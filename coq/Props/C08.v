(* C08 — Each endpoint accepts exactly the message orders the standard allows.
   Property theorems only; proofs live in Proofs/HandshakeProofs.v (stream stack) and
   Proofs/DHandshakeProofs.v (datagram stack). *)
From V Require Import Model.Handshake Proofs.HandshakeProofs Model.DHandshake Proofs.DHandshakeProofs.

(* for every sequence of received records, of any length: a client completes exactly on the
   standard's language (ServerHello, Certificate, ServerKeyExchange, optional CertificateRequest,
   ServerHelloDone, ChangeCipherSpec, Finished — or ServerHello echoing the offered session,
   ChangeCipherSpec, Finished — with valid contents and at most 16 consecutive warning alerts) *)
Theorem C08_client_language : forall p es, caccepts p es = clegal p es.
Proof. exact client_language. Qed.
Print Assumptions C08_client_language.

(* and a server exactly on ClientHello, Certificate if requested, ClientKeyExchange,
   CertificateVerify iff a certificate was sent, ChangeCipherSpec, Finished (or ClientHello,
   ChangeCipherSpec, Finished when resuming) *)
Theorem C08_server_language : forall p es, saccepts p es = slegal p es.
Proof. exact server_language. Qed.
Print Assumptions C08_server_language.

(* completion implies that what was received up to completion is, item for item, one of the legal
   flows with valid contents: any omission, repetition, transposition or foreign message is an error *)
Theorem C08_client_complete_prefix_is_flow : forall p es,
  caccepts p es = true ->
  exists pre post f, es = pre ++ post /\ In f (client_flows p) /\
    map strip_c (items_of pre) = f /\
    Forall (fun e => match e with EHs _ ok _ => ok = true | ECcs => True | EWarn => True | _ => False end) pre.
Proof. exact client_complete_prefix_is_flow. Qed.
Print Assumptions C08_client_complete_prefix_is_flow.

Theorem C08_server_complete_prefix_is_flow : forall p es,
  saccepts p es = true ->
  exists pre post f, es = pre ++ post /\ In f (server_flows p) /\
    map strip_s (items_of pre) = f /\
    Forall (fun e => match e with EHs _ ok _ => ok = true | ECcs => True | EWarn => True | _ => False end) pre.
Proof. exact server_complete_prefix_is_flow. Qed.
Print Assumptions C08_server_complete_prefix_is_flow.

(* application data is never accepted before completion; an error is final *)
Theorem C08_client_no_early_appdata : forall p pre post,
  caccepts p pre = false -> caccepts p (pre ++ EApp :: post) = false.
Proof. exact client_no_early_appdata. Qed.
Print Assumptions C08_client_no_early_appdata.

Theorem C08_server_no_early_appdata : forall p pre post,
  saccepts p pre = false -> saccepts p (pre ++ EApp :: post) = false.
Proof. exact server_no_early_appdata. Qed.
Print Assumptions C08_server_no_early_appdata.

Theorem C08_client_error_is_final : forall p pre post,
  c_st (crun p pre) = C_Err -> caccepts p (pre ++ post) = false.
Proof. exact client_error_is_final. Qed.
Print Assumptions C08_client_error_is_final.

Theorem C08_server_error_is_final : forall p pre post,
  s_st (srun p pre) = S_Err -> saccepts p (pre ++ post) = false.
Proof. exact server_error_is_final. Qed.
Print Assumptions C08_server_error_is_final.

(* ------------------------------------------------------------------ datagram stack (DTLCP)
   A datagram endpoint must drop what a lossy, reordering network can hand it (C19): records of
   another epoch or with a replayed number, a ChangeCipherSpec it cannot use yet, handshake records
   while the ChangeCipherSpec is awaited, retransmitted ClientHellos; the client first goes through
   the cookie exchange.  Its language is the standard's flows modulo exactly these records
   (dclegal / dslegal spell them out), for every sequence of any length: *)
Theorem C08_dclient_language : forall p es, dcaccepts p es = dclegal p es.
Proof. exact dclient_language. Qed.
Print Assumptions C08_dclient_language.

Theorem C08_dserver_language : forall p es, dsaccepts p es = dslegal p es.
Proof. exact dserver_language. Qed.
Print Assumptions C08_dserver_language.

(* whatever is dropped, nothing outside the standard's order is consumed: a datagram endpoint
   completes only if an ordered selection of the records it received is a sequence on which the
   stream endpoint completes, i.e. (C08_client_language / C08_server_language) one of the
   standard's flows with valid contents *)
Theorem C08_dclient_refines_stream : forall p es,
  dcaccepts p es = true -> exists core, sublist core es /\ caccepts p (map to_ev core) = true.
Proof. exact dclient_refines_stream. Qed.
Print Assumptions C08_dclient_refines_stream.

Theorem C08_dserver_refines_stream : forall p es,
  dsaccepts p es = true -> exists core, sublist core es /\ saccepts p (map to_ev core) = true.
Proof. exact dserver_refines_stream. Qed.
Print Assumptions C08_dserver_refines_stream.

(* every sequence the stream client completes on, the datagram client completes on *)
Theorem C08_dclient_extends_stream : forall p es,
  caccepts p es = true -> dcaccepts p (map embed_c es) = true.
Proof. exact dclient_extends_stream. Qed.
Print Assumptions C08_dclient_extends_stream.

(* records the record layer discards never change the verdict *)
Theorem C08_dclient_ignores_dropped : forall p es, dcaccepts p es = dcaccepts p (filter not_old es).
Proof. exact dclient_ignores_dropped. Qed.
Print Assumptions C08_dclient_ignores_dropped.

Theorem C08_dserver_ignores_dropped : forall p es, dsaccepts p es = dsaccepts p (filter not_old es).
Proof. exact dserver_ignores_dropped. Qed.
Print Assumptions C08_dserver_ignores_dropped.

Theorem C08_dclient_no_early_appdata : forall p pre post,
  dcaccepts p pre = false -> dcaccepts p (pre ++ DApp :: post) = false.
Proof. exact dclient_no_early_appdata. Qed.
Print Assumptions C08_dclient_no_early_appdata.

Theorem C08_dserver_no_early_appdata : forall p pre post,
  dsaccepts p pre = false -> dsaccepts p (pre ++ DApp :: post) = false.
Proof. exact dserver_no_early_appdata. Qed.
Print Assumptions C08_dserver_no_early_appdata.

Theorem C08_dclient_error_is_final : forall p pre post,
  dc_st (dcrun p pre) = DC_Main C_Err -> dcaccepts p (pre ++ post) = false.
Proof. exact dclient_error_is_final. Qed.
Print Assumptions C08_dclient_error_is_final.

Theorem C08_dserver_error_is_final : forall p pre post,
  ds_st (dsrun p pre) = DS_Main S_Err -> dsaccepts p (pre ++ post) = false.
Proof. exact dserver_error_is_final. Qed.
Print Assumptions C08_dserver_error_is_final.

(* non-vacuity: a datagram server completes on a cookie round, a retransmitted hello and a stray
   ChangeCipherSpec around the standard's flow, and not when the CertificateVerify is missing *)
Example C08_dserver_examples :
  dsaccepts (mkSP true)
    [DHello true false false; DHello true false true; DHs Certificate true true; DHello true false true;
     DHs ClientKeyExchange true false; DCcs; DHs CertificateVerify true false; DCcs; DOld; DHs Finished true false] = true /\
  dsaccepts (mkSP true)
    [DHello true false false; DHello true false true; DHs Certificate true true;
     DHs ClientKeyExchange true false; DCcs; DHs Finished true false] = false.
Proof. vm_compute. split; reflexivity. Qed.

(* the ServerKeyExchange is part of every legal client flow (finding F1 was its omission) *)
Example C08_skx_mandatory :
  caccepts (mkCP false false)
    [EHs ServerHello true false; EHs Certificate true false; EHs ServerHelloDone true false; ECcs; EHs Finished true false] = false /\
  caccepts (mkCP false false)
    [EHs ServerHello true false; EHs Certificate true false; EHs ServerKeyExchange true false;
     EHs ServerHelloDone true false; ECcs; EHs Finished true false] = true.
Proof. vm_compute. split; reflexivity. Qed.

(* the numbers and tables this property's model uses are the ones the sources declare: Model/GenConsts.v is
   regenerated from the repository under test (tools/consts) before every build *)
From V Require Import Model.GenConsts Proofs.TieC08.
Theorem C08_constants_are_the_sources : TieC08.tie.
Proof. exact TieC08.tie_holds. Qed.
Print Assumptions C08_constants_are_the_sources.
