(* C08 — Each endpoint accepts exactly the message orders the standard allows.
   Property theorems only; proofs live in Proofs/HandshakeProofs.v (stream stack) and
   Proofs/DHandshakeProofs.v (datagram stack). *)
From V Require Import Model.Handshake Proofs.HandshakeProofs.

(* for every sequence of received records, of any length: a client completes exactly on the
   standard's language (ServerHello, Certificate, ServerKeyExchange, optional CertificateRequest,
   ServerHelloDone, ChangeCipherSpec, Finished — or ServerHello echoing the offered session,
   ChangeCipherSpec, Finished — with valid contents and at most 16 consecutive warning alerts) *)
Theorem C08_client_language : forall p es, caccepts p es = clegal p es.
Proof. exact client_language. Qed.
Print Assumptions C08_client_language.

(* and a server exactly on ClientHello, Certificate if requested, ClientKeyExchange,
   CertificateVerify iff a certificate was sent, ChangeCipherSpec, Finished (or ClientHello,
   ChangeCipherSpec, Finished when resuming) *)
Theorem C08_server_language : forall p es, saccepts p es = slegal p es.
Proof. exact server_language. Qed.
Print Assumptions C08_server_language.

(* completion implies that what was received up to completion is, item for item, one of the legal
   flows with valid contents: any omission, repetition, transposition or foreign message is an error *)
Theorem C08_client_complete_prefix_is_flow : forall p es,
  caccepts p es = true ->
  exists pre post f, es = pre ++ post /\ In f (client_flows p) /\
    map strip_c (items_of pre) = f /\
    Forall (fun e => match e with EHs _ ok _ => ok = true | ECcs => True | EWarn => True | _ => False end) pre.
Proof. exact client_complete_prefix_is_flow. Qed.
Print Assumptions C08_client_complete_prefix_is_flow.

Theorem C08_server_complete_prefix_is_flow : forall p es,
  saccepts p es = true ->
  exists pre post f, es = pre ++ post /\ In f (server_flows p) /\
    map strip_s (items_of pre) = f /\
    Forall (fun e => match e with EHs _ ok _ => ok = true | ECcs => True | EWarn => True | _ => False end) pre.
Proof. exact server_complete_prefix_is_flow. Qed.
Print Assumptions C08_server_complete_prefix_is_flow.

(* application data is never accepted before completion; an error is final *)
Theorem C08_client_no_early_appdata : forall p pre post,
  caccepts p pre = false -> caccepts p (pre ++ EApp :: post) = false.
Proof. exact client_no_early_appdata. Qed.
Print Assumptions C08_client_no_early_appdata.

Theorem C08_server_no_early_appdata : forall p pre post,
  saccepts p pre = false -> saccepts p (pre ++ EApp :: post) = false.
Proof. exact server_no_early_appdata. Qed.
Print Assumptions C08_server_no_early_appdata.

Theorem C08_client_error_is_final : forall p pre post,
  c_st (crun p pre) = C_Err -> caccepts p (pre ++ post) = false.
Proof. exact client_error_is_final. Qed.
Print Assumptions C08_client_error_is_final.

Theorem C08_server_error_is_final : forall p pre post,
  s_st (srun p pre) = S_Err -> saccepts p (pre ++ post) = false.
Proof. exact server_error_is_final. Qed.
Print Assumptions C08_server_error_is_final.

(* the ServerKeyExchange is part of every legal client flow (finding F1 was its omission) *)
Example C08_skx_mandatory :
  caccepts (mkCP false false)
    [EHs ServerHello true false; EHs Certificate true false; EHs ServerHelloDone true false; ECcs; EHs Finished true false] = false /\
  caccepts (mkCP false false)
    [EHs ServerHello true false; EHs Certificate true false; EHs ServerKeyExchange true false;
     EHs ServerHelloDone true false; ECcs; EHs Finished true false] = true.
Proof. vm_compute. split; reflexivity. Qed.
