(* C13 — Concurrent use of a connection is race-free, deadlock-free, keeps writes whole.
   PARTIAL: the Go memory model, the scheduler and everything below sync / sync/atomic are not
   modelled.  Property theorems only; proofs live in Proofs/ConcProofs.v (generic, proved
   once) and Proofs/C13Inst.v (computed on Model/Skeleton.v, which tools/skel regenerates from
   the Go sources on every run). *)
From Coq Require Import List NArith String Bool Arith.
From V Require Import Model.Conc Model.Skeleton Model.Publish Proofs.ConcProofs Proofs.C13Inst Proofs.PublishProofs.
Import ListNotations.
Open Scope string_scope.

(* ---------------------------------------------------------------- generic, over the mutex machine *)

(* threads that acquire mutexes only in strictly increasing rank never reach a state in which
   a non-empty set of them each waits for a mutex held by a member of the set *)
Theorem C13_ordered_locking_no_deadlock : forall (A : Type) (rank : mutex -> nat) (prog : nat -> list (act A)),
  (forall i, ordered A rank [] (prog i) = true) ->
  forall s, reachable A (init A prog) s -> forall D, ~ lock_cycle A s D.
Proof. exact ordered_locking_no_deadlock. Qed.
Print Assumptions C13_ordered_locking_no_deadlock.

(* if conflicting accesses of different threads always share a held mutex, no reachable state
   has two conflicting accesses of different threads both next to run *)
Theorem C13_lockset_race_free : forall (A : Type) (conflict : A -> A -> bool) (prog : nat -> list (act A)),
  protected A conflict prog ->
  forall s, reachable A (init A prog) s -> ~ race A conflict s.
Proof. exact lockset_race_free. Qed.
Print Assumptions C13_lockset_race_free.

(* ---------------------------------------------------------------- on the generated skeleton *)

(* the generated table contains the methods the property is about *)
Theorem C13_skeleton_shape : c13_shape = true.
Proof. exact c13_shape_check. Qed.
Print Assumptions C13_skeleton_shape.

(* the handshake-phase exemption of the lockset theorem below rests on this: in the functions that
   publish the completion of the handshake (the store that makes handshakeComplete() true) no
   statement after that store uses the connection (translator: publish_sites) ... *)
Theorem C13_publication_is_last : c13_publish_last = true.
Proof. exact c13_publish_last_check. Qed.
Print Assumptions C13_publication_is_last.

(* ... the completion flag is stored to by the functions of the handshake only (nothing takes it
   back once other goroutines may rely on it) ... *)
Theorem C13_completion_flag_written_only_by_the_handshake : c13_flag_writers_ok = true.
Proof. exact c13_flag_writers_check. Qed.
Print Assumptions C13_completion_flag_written_only_by_the_handshake.

(* ... because then a thread that touches a field only after it observed completion never meets
   the handshake thread at that field, whatever the interleaving *)
Theorem C13_publish_then_observe_race_free : forall h0 w0 s,
  publish_last h0 = true -> guarded w0 = true ->
  preach (mkP h0 w0 false) s -> ~ prace s.
Proof. exact publish_then_observe_race_free. Qed.
Print Assumptions C13_publish_then_observe_race_free.

(* rank handshakeMutex < in < out < {cache mutex, pa lock, others}: whatever exported methods
   of one connection (cache, switch connection) any number of goroutines run, no reachable
   state of the machine contains a lock cycle *)
Theorem C13_lock_order : forall sk c prog,
  In sk skeletons -> In c (sk_classes sk) -> runs_class sk c prog ->
  forall s, reachable label (init label prog) s -> forall D, ~ lock_cycle label s D.
Proof. exact c13_lock_order. Qed.
Print Assumptions C13_lock_order.

(* the cache mutex and the pa lock are leaves: nothing is acquired while one of them is held *)
Theorem C13_leaf_locks : forall sk c t,
  In sk skeletons -> In c (sk_classes sk) -> In t (class_threads sk (snd c)) -> leaf_ok [] t = true.
Proof. exact c13_leaves. Qed.
Print Assumptions C13_leaf_locks.

(* no reachable state has two conflicting accesses (same field, one a write, not both atomic)
   of different goroutines both next to run — except pairs covered by the documented
   exemptions (c13_exemptions) and the fields reported as findings (c13_findings) *)
Theorem C13_lockset : forall sk c prog,
  In sk skeletons -> In c (sk_classes sk) -> runs_class sk c prog ->
  forall s, reachable label (init label prog) s ->
  ~ race label (conflict (resolve sk c13_exemptions c13_findings)) s.
Proof. exact c13_lockset. Qed.
Print Assumptions C13_lockset.

(* the findings are exactly the fields for which the discipline fails on the current sources *)
Theorem C13_findings_are_exactly_the_failures : forallb findings_exact skeletons = true.
Proof. exact c13_findings_exact_check. Qed.
Print Assumptions C13_findings_are_exactly_the_failures.

(* no exemption is stale: dropping either makes the check fail *)
Theorem C13_exemptions_needed :
  existsb (fun sk => negb (lockset_ok sk [ExField "dtlcp" OConn "remoteAddr"] c13_findings)) skeletons
  && existsb (fun sk => negb (lockset_ok sk [ExHandshakePhase] c13_findings)) skeletons = true.
Proof. exact c13_exemptions_needed_check. Qed.
Print Assumptions C13_exemptions_needed.

(* Write / WriteTo: every transport write outside the handshake phase happens with the
   write-half mutex held, all of them in one critical section *)
Theorem C13_write_section : forall sk e,
  In sk skeletons -> In e (writer_entries sk) ->
  (exists n, emissions sk [] 0 (main_thread sk e) <> [] /\
             forall x, In x (emissions sk [] 0 (main_thread sk e)) -> x = (n, true))
  /\ forall b site K, In (LBlock b site false, K) (annot label [] (main_thread sk e)) ->
                      is_emission sk b = true -> In MOut K.
Proof. exact c13_write_section. Qed.
Print Assumptions C13_write_section.

(* datagram Close: only atomics, reads and blocking calls before the spin-wait on activeCall *)
Theorem C13_close_waits : forall sk e,
  In sk skeletons -> is_dtlcp sk = true -> In e (ids_named sk ["Conn.Close"]) ->
  before_spin_ok (main_thread sk e) = true.
Proof. exact c13_close_waits. Qed.
Print Assumptions C13_close_waits.

(* ---------------------------------------------------------------- semantic models *)

(* writes whole: in every reachable state of every interleaving of writers that emit their
   records under the write-half mutex, the wire is the concatenation of the whole payloads of
   the completed Writes, each exactly once, plus what the one Write in progress has emitted *)
Theorem C13_writes_whole : forall (rcd : Type) (prog : nat -> list (list rcd)) s,
  wreach rcd prog s -> whole rcd prog s.
Proof. exact writes_whole. Qed.
Print Assumptions C13_writes_whole.

Theorem C13_writes_whole_final : forall (rcd : Type) (prog : nat -> list (list rcd)) s,
  wreach rcd prog s -> w_lock rcd s = None ->
  (forall i, w_done rcd (w_th rcd s i) = List.length (prog i)) ->
  exists order, NoDup order
    /\ (forall i k, In (i, k) order <-> (k < List.length (prog i))%nat)
    /\ w_wire rcd s = List.concat (map (payload rcd prog) order).
Proof. exact writes_whole_final. Qed.
Print Assumptions C13_writes_whole_final.

(* every caller of Handshake that has returned observed the same result; handshakeFn ran at most once *)
Theorem C13_handshake_same_result : forall (E : Type) (outcome : nat -> option E) s,
  hreach E outcome s ->
  (forall i j r1 r2, h_pc E s i = HDone E r1 -> h_pc E s j = HDone E r2 -> r1 = r2)
  /\ (h_runs E s <= 1)%nat.
Proof. exact handshake_same_result. Qed.
Print Assumptions C13_handshake_same_result.

(* concurrent readers: the chunks delivered, in delivery order, plus what is left, are the
   stream - no byte lost, duplicated or reordered among the readers *)
Theorem C13_readers_partition : forall (byte : Type) (stream : list byte) s,
  rreach byte stream s ->
  (List.concat (map snd (r_log byte s)) ++ r_left byte s)%list = stream.
Proof. exact readers_partition. Qed.
Print Assumptions C13_readers_partition.

(* datagram Close: once the wait is over no call is inside and none can enter *)
Theorem C13_close_interlock : forall s, creach s ->
  (c_closer s = KCleaning \/ c_closer s = KDone) ->
  (forall i, c_pc s i <> CInside) /\ c_closed s = true.
Proof. exact close_interlock. Qed.
Print Assumptions C13_close_interlock.

(* ---------------------------------------------------------------- the hypotheses are satisfiable / needed *)

(* two threads that take `in` and `out` in opposite orders do reach a lock cycle: the rank
   hypothesis of C13_ordered_locking_no_deadlock is what excludes it *)
Example C13_opposite_orders_deadlock :
  let prog := fun i : nat => match i with
                             | 0%nat => [ALock MIn; ALock MOut]
                             | 1%nat => [ALock MOut; ALock MIn]
                             | _ => [] end : list (act unit) in
  exists s, reachable unit (init unit prog) s /\ lock_cycle unit s [0%nat; 1%nat].
Proof.
  intro prog.
  set (s1 := upd unit (init unit prog) 0%nat ([MIn], [ALock MOut])).
  set (s2 := upd unit s1 1%nat ([MOut], [ALock MIn])).
  exists s2. split.
  - apply reach_step with (s := s1).
    + apply reach_step with (s := init unit prog); [apply reach_refl|].
      apply (step_lock unit (init unit prog) 0%nat [] MIn [ALock MOut]); [reflexivity|].
      intros k H. exact H.
    + apply (step_lock unit s1 1%nat [] MOut [ALock MIn]); [reflexivity|].
      intros k H. unfold s1, upd in H. destruct k as [|k]; simpl in H.
      * destruct H as [H|[]]. discriminate.
      * exact H.
  - split; [discriminate|]. intros i [<-|[<-|[]]].
    + exists MOut, 1%nat. split; [exists [MIn], []; reflexivity|]. split; [right; left; reflexivity|]. left. reflexivity.
    + exists MIn, 0%nat. split; [exists [MOut], []; reflexivity|]. split; [left; reflexivity|]. left. reflexivity.
Qed.

(* the threads the theorems talk about exist: every class of every skeleton has thread programs *)
Example C13_threads_exist :
  forallb (fun sk => forallb (fun c => negb (Nat.eqb (List.length (class_threads sk (snd c))) 0%nat)) (sk_classes sk)) skeletons = true.
Proof. vm_compute. reflexivity. Qed.

(* the deadline setters acquire no mutex: they are what a caller uses to wake a Read or Write parked inside the
   transport with the read- or write-half mutex held (on the skeleton regenerated from the sources; the three
   setters exist in both stacks: C13Extra.c13_setters_exist) *)
From V Require Import Proofs.C13Extra.
Theorem C13_deadline_setters_take_no_lock : forall sk e,
  In sk skeletons -> In e (setter_entries sk) -> no_lock_acts (main_thread sk e) = true.
Proof. exact c13_setters_take_no_lock. Qed.
Print Assumptions C13_deadline_setters_take_no_lock.

(* the protocol adapter's Read and Write reach the wrapped connection's blocking Read / Write, and never with the
   adapter's detection lock held: a Write parked in the transport cannot keep a concurrent Read out *)
Theorem C13_adapter_io_outside_its_lock : forall sk e,
  In sk skeletons -> In e (adapter_entries sk) ->
  wrapped_io_unlocked sk [] (main_thread sk e) = true /\ has_wrapped_io sk (main_thread sk e) = true.
Proof. exact c13_adapter_io_outside_its_lock. Qed.
Print Assumptions C13_adapter_io_outside_its_lock.
