(* C05 — Attacked record streams deliver only a correct prefix, then a permanent error.
   Property theorems only; proofs live in Proofs/RecordAttackProofs.v.  Authenticated decryption
   is idealised in the model (a record opens iff it is byte for byte the record sealed with the
   expected sequence number); C04 checks the protection itself against the standard. *)
From V Require Import Model.RecordAttack Proofs.RecordAttackProofs.

(* whatever the attacker delivers, the application reads exactly the payloads of some number k of
   the sender's first records, which sit intact and in order at the start of the stream *)
Theorem C05_prefix : forall gs stream d e,
  Forall wf_grec gs ->
  receive_all gs stream = (d, e) ->
  exists k, k <= length gs /\
    is_prefix (concat (map g_wire (firstn k gs))) stream = true /\
    d = app_data (firstn k gs).
Proof. exact delivered_is_genuine_prefix. Qed.
Print Assumptions C05_prefix.

(* the prefix ends at the first damaged, replayed, out-of-order, truncated or injected record:
   nothing from it or after it is delivered, and what follows is an error *)
Theorem C05_first_damage_stops : forall gs k junk d e,
  Forall wf_grec gs -> k <= length gs ->
  Forall (fun g => exists x xs, g_content g = CApp (x :: xs)) (firstn k gs) ->
  (forall g, nth_error gs k = Some g -> is_prefix (g_wire g) junk = false) ->
  receive_all gs (concat (map g_wire (firstn k gs)) ++ junk) = (d, e) ->
  d = app_data (firstn k gs) /\ (junk <> [] -> e <> EndEOF) /\ e <> EndOutOfFuel.
Proof. exact first_damage_stops. Qed.
Print Assumptions C05_first_damage_stops.

Theorem C05_untouched_delivers_all : forall gs,
  Forall wf_grec gs ->
  Forall (fun g => exists x xs, g_content g = CApp (x :: xs)) gs ->
  receive_all (gs ++ [mkG [21; 1; 1; 0; 2; 1; 0]%N CClose]) (concat (map g_wire gs) ++ [21; 1; 1; 0; 2; 1; 0]%N)
  = (app_data gs, EndEOF).
Proof. exact untouched_stream_delivers_all. Qed.
Print Assumptions C05_untouched_delivers_all.

(* once an error has been returned every later read fails too and delivers nothing *)
Theorem C05_latched : forall st ns i j e bs bs' r,
  nth_error (read_calls st ns) i = Some (bs, Some e) -> i <= j ->
  nth_error (read_calls st ns) j = Some (bs', r) ->
  bs' = [] /\ r = Some e.
Proof. exact error_is_latched. Qed.
Print Assumptions C05_latched.

(* for CBC suites every kind of ciphertext damage is answered with bad_record_mac *)
Theorem C05_cbc_single_alert : forall dec mac hdr payload,
  (exists pt, cbc_open dec mac hdr payload = Opened pt) \/ cbc_open dec mac hdr payload = Refused 20.
Proof. exact cbc_single_alert. Qed.
Print Assumptions C05_cbc_single_alert.

(* the numbers and tables this property's model uses are the ones the sources declare: Model/GenConsts.v is
   regenerated from the repository under test (tools/consts) before every build *)
From V Require Import Model.GenConsts Proofs.TieC05.
Theorem C05_constants_are_the_sources : TieC05.tie.
Proof. exact TieC05.tie_holds. Qed.
Print Assumptions C05_constants_are_the_sources.
