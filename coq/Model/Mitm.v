(* Two-party model of a TLCP / DTLCP handshake under an adversary that owns the channel.

   What is mirrored (tlcp/handshake_client.go clientHandshake, handshake, doFullHandshake,
   readFinished, sendFinished; tlcp/handshake_server.go handshake, doResumeHandshake,
   doFullHandshake, readFinished, sendFinished; tlcp/prf.go finishedHash; tlcp/conn.go
   writeHandshakeRecord, readHandshake, readRecordOrCCS, retryReadRecord; and the dtlcp
   counterparts):

   - an endpoint keeps ONE running transcript: every handshake message it writes
     (writeHandshakeRecord -> transcript.Write(data)) and every handshake message it is handed
     and accepts (readHandshake -> transcript.Write(data), or transcriptMsg for the hello
     messages, the CertificateVerify and the Finished, which are added after they were checked)
     is appended, in that order, as the bytes that were written / received (`ch_log`, `sh_log`:
     the chronological list of what went out and what came in; the hash input is the
     concatenation of the message bytes, `concat (msgs_of log)`);
   - Finished = F(master, label, H(transcript)); the received Finished is accepted only if its
     verify_data equals the value computed from the receiver's own transcript and master secret
     (ConstantTimeCompare over the whole length);
   - the ChangeCipherSpec is accepted only at the point where it is expected and never with
     handshake bytes pending in the reassembly buffer;
   - everything else the receiver checks on a message (version, suite, certificate chain,
     signatures, key exchange ...) is a parameter (`cs_check`, `ss_check`, ...): the theorems hold
     for every choice of these checks, and for every choice of the message generators.

   The adversary delivers an arbitrary sequence of records to either endpoint (stream stack:
   `schedule`; datagram stack: `dschedule`).  Record protection is NOT assumed: the adversary may
   hand over any plaintext also after the ChangeCipherSpec (this only makes it stronger).

   No proofs here (Proofs/MitmProofs.v). *)
From Coq Require Export NArith Arith List Lia Bool.
From V Require Export Model.Handshake.
Export ListNotations.

Definition bytes := list N.
Definition msg := bytes.                  (* one whole handshake message: header ++ body *)

Fixpoint bytes_eqb (a b : bytes) : bool :=
  match a, b with
  | [], [] => true
  | x :: a', y :: b' => N.eqb x y && bytes_eqb a' b'
  | _, _ => false
  end.

(* ------------------------------------------------------------------ framing *)
(* type byte and the 24-bit length field every handshake message starts with *)
Definition mtype (m : msg) : N := hd 0%N m.
Definition body_len (m : bytes) : option N :=
  match m with
  | _ :: a :: b :: c :: _ => Some (a * 65536 + b * 256 + c)%N
  | _ => None
  end.
(* hl = 4 (tlcp) or 12 (dtlcp: + message_seq, fragment_offset, fragment_length) *)
Definition framedb (hl : nat) (m : msg) : bool :=
  match body_len m with
  | Some n => N.eqb (N.of_nat (length m)) (N.of_nat hl + n) && Nat.leb 4 hl
  | None => false
  end.

(* readHandshake on the reassembly buffer c.hand (tlcp): needs 4 bytes, then the whole message;
   a length above maxHandshake is fatal *)
Definition max_handshake : N := 65536.
Inductive popres := PNeed | PTooBig | PMsg (m : msg) (rest : bytes).
Definition pop (hand : bytes) : popres :=
  match body_len hand with
  | None => PNeed
  | Some n =>
      if (max_handshake <? n)%N then PTooBig
      else if (N.of_nat (length hand) <? 4 + n)%N then PNeed
      else PMsg (firstn (N.to_nat (4 + n)) hand) (skipn (N.to_nat (4 + n)) hand)
  end.

(* ------------------------------------------------------------------ what the handshake layer consumes / produces *)
Inductive witem := WMsg (m : msg) | WCcs.
Inductive dir := Out | In.
Definition log := list (dir * witem).

Definition flip (d : dir) : dir := match d with Out => In | In => Out end.
Definition mirror (l : log) : log := map (fun x => (flip (fst x), snd x)) l.

Fixpoint msgs_of (l : log) : list msg :=
  match l with
  | [] => []
  | (_, WMsg m) :: t => m :: msgs_of t
  | (_, WCcs) :: t => msgs_of t
  end.
Fixpoint items_dir (d : dir) (l : log) : list witem :=
  match l with
  | [] => []
  | (Out, it) :: t => match d with Out => it :: items_dir d t | In => items_dir d t end
  | (In, it) :: t => match d with In => it :: items_dir d t | Out => items_dir d t end
  end.
Definition sent_items (l : log) : list witem := items_dir Out l.       (* what the endpoint wrote *)
Definition accepted_items (l : log) : list witem := items_dir In l.    (* what it was handed and accepted *)

Definition outs (ms : list msg) : log := map (fun m => (Out, WMsg m)) ms.
Definition ins (ms : list msg) : log := map (fun m => (In, WMsg m)) ms.

(* ------------------------------------------------------------------ parameters *)
(* hash, PRF and the Finished codec *)
Record crypto := mkK {
  kH : bytes -> bytes;                          (* SM3 over the concatenated transcript *)
  kF : bytes -> bool -> bytes -> bytes;         (* PRF(master, label, digest)[0..12); label: true = "client finished" *)
  k_fin_mk : bytes -> msg;                      (* finishedMsg.marshal *)
  k_fin_parse : msg -> option bytes }.          (* finishedMsg.unmarshal: the verify_data *)

Definition fin_value (K : crypto) (master : bytes) (client_label : bool) (tr : list msg) : bytes :=
  kF K master client_label (kH K (concat tr)).

(* the client's contents layer; every function sees the transcript so far *)
Record cside := mkCS {
  cs_sh_ok : list msg -> msg -> bool;           (* pickProtocolVersion, pickCipherSuite, compression, checkALPN *)
  cs_resumes : list msg -> msg -> bool;         (* serverResumedSession and the session checks *)
  cs_ecdhe : list msg -> bool;                  (* the selected suite is ECDHE: CertificateRequest is mandatory *)
  cs_check : list msg -> msg -> bool;           (* verifyServerCertificate, processServerKeyExchange, ... *)
  cs_flight : list msg -> list msg;             (* Certificate?, ClientKeyExchange, CertificateVerify? *)
  cs_master : list msg -> bytes }.              (* masterFromPreMasterSecret / the cached session's master secret *)

Record sside := mkSS {
  ss_ch_ok : msg -> bool;                       (* readClientHello, processClientHello, pickCipherSuite *)
  ss_resumes : msg -> bool;                     (* checkForResumption *)
  ss_certreq : msg -> bool;                     (* a CertificateRequest is part of the flight *)
  ss_flight : msg -> list msg;                  (* ServerHello .. ServerHelloDone, or the ServerHello alone when resuming *)
  ss_nonempty : msg -> bool;                    (* the client's Certificate message carries a certificate *)
  ss_check : list msg -> msg -> bool;           (* processCertsFromClient, processClientKeyExchange, verifyHandshakeSignature *)
  ss_master : list msg -> bytes }.

(* ------------------------------------------------------------------ client, handshake layer *)
Record chs := mkCHS {
  ch_st : cstate;
  ch_res : bool;                                (* c.didResume *)
  ch_log : log;
  ch_fin_out : option bytes;                    (* c.clientFinished *)
  ch_fin_in : option bytes }.                   (* c.serverFinished *)

Definition chs_init (hello : msg) : chs := mkCHS C_SH false [(Out, WMsg hello)] None None.

Section HS.
Variable K : crypto.

Section Client.
Variable P : cside.

Definition c_fail (c : chs) : chs := mkCHS C_Err (ch_res c) (ch_log c) (ch_fin_out c) (ch_fin_in c).
Definition c_take (c : chs) (st : cstate) (m : msg) : chs :=
  mkCHS st (ch_res c) (ch_log c ++ [(In, WMsg m)]) (ch_fin_out c) (ch_fin_in c).

(* sendFinished: ChangeCipherSpec, then Finished over the transcript so far *)
Definition c_send_fin (st : cstate) (res : bool) (l : log) (fin_in : option bytes) : chs :=
  let v := fin_value K (cs_master P (msgs_of l)) true (msgs_of l) in
  mkCHS st res (l ++ [(Out, WCcs); (Out, WMsg (k_fin_mk K v))]) (Some v) fin_in.

(* after ServerHelloDone: the client's flight, ChangeCipherSpec, Finished *)
Definition c_after_shd (c : chs) (m : msg) : chs :=
  let l := ch_log c ++ [(In, WMsg m)] in
  let l1 := l ++ outs (cs_flight P (msgs_of l)) in
  c_send_fin (C_CCS false) (ch_res c) l1 (ch_fin_in c).

Definition chs_step (c : chs) (it : witem) : chs :=
  let tr := msgs_of (ch_log c) in
  match ch_st c, it with
  | C_Done, _ | C_Err, _ => c
  | C_SH, WMsg m =>
      if N.eqb (mtype m) 2 && cs_sh_ok P tr m then
        if cs_resumes P tr m
        then mkCHS (C_CCS true) true (ch_log c ++ [(In, WMsg m)]) None None
        else c_take c C_Cert m
      else c_fail c
  | C_Cert, WMsg m => if N.eqb (mtype m) 11 && cs_check P tr m then c_take c C_SKX m else c_fail c
  | C_SKX, WMsg m => if N.eqb (mtype m) 12 && cs_check P tr m then c_take c C_CRorSHD m else c_fail c
  | C_CRorSHD, WMsg m =>
      if N.eqb (mtype m) 13 then (if cs_check P tr m then c_take c C_SHD m else c_fail c)
      else if N.eqb (mtype m) 14 && negb (cs_ecdhe P tr) && cs_check P tr m then c_after_shd c m
      else c_fail c
  | C_SHD, WMsg m => if N.eqb (mtype m) 14 && cs_check P tr m then c_after_shd c m else c_fail c
  | C_CCS r, WCcs => mkCHS (C_Fin r) (ch_res c) (ch_log c ++ [(In, WCcs)]) (ch_fin_out c) (ch_fin_in c)
  | C_Fin r, WMsg m =>
      match k_fin_parse K m with
      | Some v =>
          if N.eqb (mtype m) 20 && bytes_eqb v (fin_value K (cs_master P tr) false tr) then
            let l := ch_log c ++ [(In, WMsg m)] in
            if r then c_send_fin C_Done (ch_res c) l (Some v)
            else mkCHS C_Done (ch_res c) l (ch_fin_out c) (Some v)
          else c_fail c
      | None => c_fail c
      end
  | _, _ => c_fail c
  end.

Definition chs_run (hello : msg) (its : list witem) : chs := fold_left chs_step its (chs_init hello).
End Client.

(* ------------------------------------------------------------------ server, handshake layer *)
Record shs := mkSHS {
  sh_st : sstate;
  sh_res : bool;
  sh_log : log;
  sh_fin_out : option bytes;                    (* c.serverFinished (the value sent) *)
  sh_fin_in : option bytes }.                   (* c.clientFinished (the value verified) *)

Definition shs_init : shs := mkSHS S_CH false [] None None.

Section Server.
Variable P : sside.

Definition s_fail (s : shs) : shs := mkSHS S_Err (sh_res s) (sh_log s) (sh_fin_out s) (sh_fin_in s).
Definition s_take (s : shs) (st : sstate) (m : msg) : shs :=
  mkSHS st (sh_res s) (sh_log s ++ [(In, WMsg m)]) (sh_fin_out s) (sh_fin_in s).

Definition s_send_fin (st : sstate) (res : bool) (l : log) (fin_in : option bytes) : shs :=
  let v := fin_value K (ss_master P (msgs_of l)) false (msgs_of l) in
  mkSHS st res (l ++ [(Out, WCcs); (Out, WMsg (k_fin_mk K v))]) (Some v) fin_in.

Definition shs_step (s : shs) (it : witem) : shs :=
  let tr := msgs_of (sh_log s) in
  match sh_st s, it with
  | S_Done, _ | S_Err, _ => s
  | S_CH, WMsg m =>
      if N.eqb (mtype m) 1 && ss_ch_ok P m then
        let l := (In, WMsg m) :: outs (ss_flight P m) in
        if ss_resumes P m then s_send_fin (S_CCS true) true l None
        else mkSHS (if ss_certreq P m then S_Cert else S_CKX false) false l None None
      else s_fail s
  | S_Cert, WMsg m => if N.eqb (mtype m) 11 && ss_check P tr m then s_take s (S_CKX (ss_nonempty P m)) m else s_fail s
  | S_CKX hc, WMsg m =>
      if N.eqb (mtype m) 16 && ss_check P tr m then s_take s (if hc then S_CV else S_CCS false) m else s_fail s
  | S_CV, WMsg m => if N.eqb (mtype m) 15 && ss_check P tr m then s_take s (S_CCS false) m else s_fail s
  | S_CCS r, WCcs => mkSHS (S_Fin r) (sh_res s) (sh_log s ++ [(In, WCcs)]) (sh_fin_out s) (sh_fin_in s)
  | S_Fin r, WMsg m =>
      match k_fin_parse K m with
      | Some v =>
          if N.eqb (mtype m) 20 && bytes_eqb v (fin_value K (ss_master P tr) true tr) then
            let l := sh_log s ++ [(In, WMsg m)] in
            if r then mkSHS S_Done (sh_res s) l (sh_fin_out s) (Some v)
            else s_send_fin S_Done (sh_res s) l (Some v)
          else s_fail s
      | None => s_fail s
      end
  | _, _ => s_fail s
  end.

Definition shs_run (its : list witem) : shs := fold_left shs_step its shs_init.
End Server.
End HS.

Definition c_done (c : chs) : bool := match ch_st c with C_Done => true | _ => false end.
Definition s_done (s : shs) : bool := match sh_st s with S_Done => true | _ => false end.

(* ------------------------------------------------------------------ stream record layer (tlcp/conn.go) *)
(* one record as the endpoint's readRecordOrCCS sees it after (possible) decryption *)
Inductive rec_ev :=
| RHs (payload : bytes)   (* handshake record *)
| RCcs                    (* change_cipher_spec, well formed *)
| RWarn                   (* warning alert other than close_notify *)
| RApp                    (* application data *)
| REnd.                   (* fatal alert, close_notify, malformed / undecryptable record, unknown type, end of transport *)

Inductive want := WantMsg | WantCcs | WantNone.
Definition c_want (c : chs) : want :=
  match ch_st c with C_CCS _ => WantCcs | C_Done | C_Err => WantNone | _ => WantMsg end.
Definition s_want (s : shs) : want :=
  match sh_st s with S_CCS _ => WantCcs | S_Done | S_Err => WantNone | _ => WantMsg end.

Section Stream.
Variable A : Type.
Variable wantf : A -> want.
Variable stepf : A -> witem -> A.

Record tconn := mkT { t_hs : A; t_hand : bytes; t_retry : nat; t_fail : bool }.

(* the handshake code calls readHandshake whenever it wants the next message: every complete
   message in c.hand is consumed as long as a message (not the ChangeCipherSpec) is wanted *)
Fixpoint drain (fuel : nat) (a : A) (hand : bytes) : A * bytes * bool :=
  match fuel with
  | O => (a, hand, false)
  | S f =>
      match wantf a with
      | WantMsg =>
          match pop hand with
          | PMsg m rest => drain f (stepf a (WMsg m)) rest
          | PNeed => (a, hand, false)
          | PTooBig => (a, hand, true)
          end
      | _ => (a, hand, false)
      end
  end.

Definition t_dead (t : tconn) : tconn := mkT (t_hs t) (t_hand t) (t_retry t) true.

Definition t_step (t : tconn) (r : rec_ev) : tconn :=
  if t_fail t then t else
  match wantf (t_hs t) with
  | WantNone => t
  | w =>
      match r with
      | REnd | RApp => t_dead t
      | RWarn => if Nat.ltb max_useless (S (t_retry t)) then t_dead t
                 else mkT (t_hs t) (t_hand t) (S (t_retry t)) false
      | RCcs =>
          match t_hand t, w with
          | [], WantCcs => mkT (stepf (t_hs t) WCcs) [] (t_retry t) false
          | _, _ => t_dead t                  (* handshake bytes pending, or not expected here *)
          end
      | RHs p =>
          match p, w with
          | [], _ => t_dead t
          | _, WantCcs => t_dead t
          | _, _ =>
              let hand := t_hand t ++ p in
              let '(a, h, bad) := drain (S (length hand)) (t_hs t) hand in
              mkT a h 0 bad
          end
      end
  end.

Definition t_run (a0 : A) (rs : list rec_ev) : tconn := fold_left t_step rs (mkT a0 [] 0 false).
End Stream.

Arguments mkT {A}.
Arguments t_hs {A}.
Arguments t_hand {A}.
Arguments t_retry {A}.
Arguments t_fail {A}.

(* ------------------------------------------------------------------ the adversary: stream stack *)
Inductive party := PC | PS.
Definition schedule := list (party * rec_ev).

Section Run.
Variable K : crypto.
Variable PCl : cside.
Variable PSv : sside.
Variable hello : msg.

Definition tc_step := t_step chs c_want (chs_step K PCl).
Definition ts_step := t_step shs s_want (shs_step K PSv).

Definition tstate := (tconn chs * tconn shs)%type.
Definition tinit : tstate := (mkT (chs_init hello) [] 0 false, mkT shs_init [] 0 false).

Definition deliver (st : tstate) (a : party * rec_ev) : tstate :=
  match a with
  | (PC, r) => (tc_step (fst st) r, snd st)
  | (PS, r) => (fst st, ts_step (snd st) r)
  end.

Definition run (sch : schedule) : tstate := fold_left deliver sch tinit.

Definition both_done (st : tstate) : bool := c_done (t_hs (fst st)) && s_done (t_hs (snd st)).
End Run.

(* The only cryptographic premise on a run: a verify_data value an endpoint accepted was put on
   the wire by one of the two endpoints (the adversary may replay or reflect what it saw, it does
   not compute PRF(master, ..) itself: it does not hold a master secret). *)
Definition no_forgery (c : chs) (s : shs) : Prop :=
  (forall v, ch_fin_in c = Some v -> sh_fin_out s = Some v \/ ch_fin_out c = Some v) /\
  (forall v, sh_fin_in s = Some v -> ch_fin_out c = Some v \/ sh_fin_out s = Some v).

(* idealisations of SM3 and the PRF: collision-free hash; distinct (label, digest) pairs give
   distinct verify_data, whatever the keys *)
Definition crypto_ideal (K : crypto) : Prop :=
  (forall a b, kH K a = kH K b -> a = b) /\
  (forall k1 l1 d1 k2 l2 d2, kF K k1 l1 d1 = kF K k2 l2 d2 -> l1 = l2 /\ d1 = d2) /\
  (forall k l d, k_fin_parse K (k_fin_mk K (kF K k l d)) = Some (kF K k l d)) /\
  (forall v, mtype (k_fin_mk K v) = 20%N).

(* two Finished messages with the same verify_data are the same bytes (tlcp: the header is
   type, length; dtlcp: the header also carries message_seq, so this holds only together with
   the record protection of the Finished) *)
Definition fin_canonical (K : crypto) : Prop :=
  forall m v, k_fin_parse K m = Some v -> mtype m = 20%N -> m = k_fin_mk K v.

(* the two logs are mirror images up to their last entry, which on both sides is a Finished
   message carrying the same verify_data (written by one endpoint, accepted by the other) *)
Definition mirrored_upto_last_fin (K : crypto) (lc ls : log) : Prop :=
  exists core d ma mb v,
    lc = core ++ [(d, WMsg ma)] /\ ls = mirror core ++ [(flip d, WMsg mb)] /\
    mtype ma = 20%N /\ mtype mb = 20%N /\ k_fin_parse K ma = Some v /\ k_fin_parse K mb = Some v.

(* what the generators produce is framed, and the server's flight ends with its only
   ServerHelloDone (full) or is the ServerHello alone (resumption) *)
Definition shape14 (f : list msg) : Prop :=
  exists pre shd, f = pre ++ [shd] /\ mtype shd = 14%N /\ Forall (fun m => mtype m <> 14%N) pre /\ pre <> [].

Definition gens_ok (hl : nat) (K : crypto) (PCl : cside) (PSv : sside) : Prop :=
  (forall k l d, framedb hl (k_fin_mk K (kF K k l d)) = true) /\
  (forall tr, Forall (fun m => framedb hl m = true) (cs_flight PCl tr)) /\
  (forall ch, Forall (fun m => framedb hl m = true) (ss_flight PSv ch)) /\
  (forall ch, if ss_resumes PSv ch then exists sh, ss_flight PSv ch = [sh] /\ mtype sh = 2%N
              else shape14 (ss_flight PSv ch)).

(* the untampered handshake, as a closed form of the parameters *)
Definition honest_pre (PCl : cside) (PSv : sside) (hello : msg) : list msg :=
  let f1 := ss_flight PSv hello in
  if ss_resumes PSv hello then hello :: f1
  else hello :: f1 ++ cs_flight PCl (hello :: f1).

(* ------------------------------------------------------------------ datagram stack (dtlcp) *)
(* One event = one record as dtlcp/conn.go readRecordOrCCS treats it, a handshake record holding
   one whole message (reassembly: C17).  The cookie exchange precedes the transcript: the
   cookieless ClientHello and the HelloVerifyRequest are not hashed. *)
Inductive dgev :=
| GMsg (m : msg)
| GFrag                 (* the start of a message that never completes *)
| GCcs | GWarn | GApp | GEnd
| GOld.                 (* record of another epoch / replayed sequence number: dropped *)

Record dcside := mkDCS {
  dcs_hello0 : msg;                       (* the cookieless ClientHello *)
  dcs_hello : msg -> msg;                 (* the ClientHello carrying the cookie of this HelloVerifyRequest *)
  dcs_side : cside }.

Record dsside := mkDSS {
  dss_cookie_ok : msg -> bool;            (* verifyCookie on this ClientHello *)
  dss_side : sside }.

Inductive dcphase :=
| DCHello (cur : msg) (have_cookie : bool)
| DCMain (c : chs).
Record dcconn := mkDC { dc_ph : dcphase; dc_retry : nat; dc_pend : bool; dc_fail : bool }.

Inductive dsphase :=
| DSHello (first : bool)
| DSMain (s : shs).
Record dsconn := mkDS { ds_ph : dsphase; ds_retry : nat; ds_pend : bool; ds_fail : bool }.

Section Datagram.
Variable K : crypto.

Section DClient.
Variable P : dcside.
Definition dc_dead (c : dcconn) : dcconn := mkDC (dc_ph c) (dc_retry c) (dc_pend c) true.

Definition dc_step (c : dcconn) (e : dgev) : dcconn :=
  if dc_fail c then c else
  match dc_ph c with
  | DCHello cur hc =>
      match e with
      | GOld => c
      | GEnd | GApp | GCcs => dc_dead c
      | GWarn => if Nat.ltb max_useless (S (dc_retry c)) then dc_dead c
                 else mkDC (dc_ph c) (S (dc_retry c)) (dc_pend c) false
      | GFrag => mkDC (dc_ph c) 0 true false
      | GMsg m =>
          if dc_pend c then mkDC (dc_ph c) 0 true false
          else if N.eqb (mtype m) 3 then
            (if hc then mkDC (dc_ph c) 0 false false               (* a retransmitted HelloVerifyRequest: the hello is re-sent unchanged *)
             else mkDC (DCHello (dcs_hello P m) true) 0 false false)
          else if N.eqb (mtype m) 2 then
            mkDC (DCMain (chs_step K (dcs_side P) (chs_init cur) (WMsg m))) 0 false false
          else dc_dead c
      end
  | DCMain h =>
      match c_want h with
      | WantNone => c
      | w =>
          match e with
          | GOld => c
          | GEnd | GApp => dc_dead c
          | GWarn => if Nat.ltb max_useless (S (dc_retry c)) then dc_dead c
                     else mkDC (dc_ph c) (S (dc_retry c)) (dc_pend c) false
          | GCcs =>
              match w with
              | WantCcs => if dc_pend c then dc_dead c
                           else mkDC (DCMain (chs_step K (dcs_side P) h WCcs)) (dc_retry c) false false
              | _ => c                                                (* cannot be used yet: dropped *)
              end
          | GFrag =>
              match w with
              | WantCcs => mkDC (dc_ph c) 0 (dc_pend c) false         (* retransmission: dropped *)
              | _ => mkDC (dc_ph c) 0 true false
              end
          | GMsg m =>
              match w with
              | WantCcs => mkDC (dc_ph c) 0 (dc_pend c) false
              | _ => if dc_pend c then mkDC (dc_ph c) 0 true false
                     else mkDC (DCMain (chs_step K (dcs_side P) h (WMsg m))) 0 false false
              end
          end
      end
  end.

Definition dc_init : dcconn := mkDC (DCHello (dcs_hello0 P) false) 0 false false.
Definition dc_run (es : list dgev) : dcconn := fold_left dc_step es dc_init.
End DClient.

Section DServer.
Variable P : dsside.
Definition ds_dead (c : dsconn) : dsconn := mkDS (ds_ph c) (ds_retry c) (ds_pend c) true.

(* the server is reading the client's flight through readNextFlightMsg *)
Definition in_flight5 (s : shs) : bool :=
  match sh_st s with S_Cert | S_CKX _ | S_CV => true | _ => false end.

Definition ds_step (c : dsconn) (e : dgev) : dsconn :=
  if ds_fail c then c else
  match ds_ph c with
  | DSHello first =>
      match e with
      | GOld => c
      | GEnd | GApp => ds_dead c
      | GCcs => if first then ds_dead c else c
      | GWarn => if Nat.ltb max_useless (S (ds_retry c)) then ds_dead c
                 else mkDS (ds_ph c) (S (ds_retry c)) (ds_pend c) false
      | GFrag => mkDS (ds_ph c) 0 true false
      | GMsg m =>
          if ds_pend c then mkDS (ds_ph c) 0 true false
          else if N.eqb (mtype m) 1 then
            (if dss_cookie_ok P m
             then mkDS (DSMain (shs_step K (dss_side P) shs_init (WMsg m))) 0 false false
             else mkDS (DSHello false) 0 false false)              (* answered by a HelloVerifyRequest *)
          else ds_dead c
      end
  | DSMain h =>
      match s_want h with
      | WantNone => c
      | w =>
          match e with
          | GOld => c
          | GEnd | GApp => ds_dead c
          | GWarn => if Nat.ltb max_useless (S (ds_retry c)) then ds_dead c
                     else mkDS (ds_ph c) (S (ds_retry c)) (ds_pend c) false
          | GCcs =>
              match w with
              | WantCcs => if ds_pend c then ds_dead c
                           else mkDS (DSMain (shs_step K (dss_side P) h WCcs)) (ds_retry c) false false
              | _ => c
              end
          | GFrag =>
              match w with
              | WantCcs => mkDS (ds_ph c) 0 (ds_pend c) false
              | _ => mkDS (ds_ph c) 0 true false
              end
          | GMsg m =>
              match w with
              | WantCcs => mkDS (ds_ph c) 0 (ds_pend c) false
              | _ => if ds_pend c then mkDS (ds_ph c) 0 true false
                     else if N.eqb (mtype m) 1 && in_flight5 h then mkDS (ds_ph c) 0 false false   (* retransmitted ClientHello: flight re-sent *)
                     else mkDS (DSMain (shs_step K (dss_side P) h (WMsg m))) 0 false false
              end
          end
      end
  end.

Definition ds_init : dsconn := mkDS (DSHello true) 0 false false.
Definition ds_run (es : list dgev) : dsconn := fold_left ds_step es ds_init.
End DServer.
End Datagram.

Definition dschedule := list (party * dgev).

Definition drun (K : crypto) (PCl : dcside) (PSv : dsside) (sch : dschedule) : dcconn * dsconn :=
  fold_left (fun st a => match a with
                         | (PC, e) => (dc_step K PCl (fst st) e, snd st)
                         | (PS, e) => (fst st, ds_step K PSv (snd st) e)
                         end) sch (dc_init PCl, ds_init).

Definition dc_done (c : dcconn) : bool := match dc_ph c with DCMain h => c_done h | _ => false end.
Definition ds_done (c : dsconn) : bool := match ds_ph c with DSMain h => s_done h | _ => false end.
