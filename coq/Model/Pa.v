(* Model of pa/conn.go (ProtocolDetectConn.ReadFirstHeader / Read) and
   pa/switch_server_conn.go (detect) over a transport given as a list of chunks.
   A transport Read with a buffer of n bytes returns the first min(n, |chunk|) bytes of the
   head chunk (chunks are non-empty); after the last chunk it returns EOF. *)
From Coq Require Export NArith Arith List Lia Bool.
Export ListNotations.

Definition byte := N.
Definition transport := list (list byte).

Inductive rerr := NoErr | EOF | UnexpectedEOF.

(* one Read(b) with len(b) = n on the raw connection *)
Definition tread (t : transport) (n : nat) : list byte * rerr * transport :=
  match t with
  | [] => ([], EOF, [])
  | c :: r =>
      if Nat.eqb n 0 then ([], NoErr, t)
      else if Nat.leb (length c) n then (c, NoErr, r)
      else (firstn n c, NoErr, skipn n c :: r)
  end.

(* io.ReadFull(conn, hdr[0:5]) : reads until 5 bytes are there; EOF with 0 bytes read is EOF,
   EOF after 1..4 bytes is ErrUnexpectedEOF.  fuel bounds the number of Read calls. *)
Fixpoint read_full (fuel : nat) (t : transport) (need : nat) (acc : list byte)
  : list byte * rerr * transport :=
  match need with
  | O => (acc, NoErr, t)
  | _ =>
      match fuel with
      | O => (acc, UnexpectedEOF, t)
      | S k =>
          match tread t need with
          | (bs, EOF, t') => (acc ++ bs, (match acc ++ bs with [] => EOF | _ => UnexpectedEOF end), t')
          | (bs, e, t') => read_full k t' (need - length bs) (acc ++ bs)
          end
      end
  end.

Record pdc := mkPdc { hdr : list byte; major : byte; minor : byte; raw : transport }.

(* ReadFirstHeader: recordHeader = make([]byte,5); ReadFull; major,minor = hdr[1],hdr[2] *)
Definition read_first_header (t : transport) : pdc * rerr :=
  let '(bs, e, t') := read_full (S (length t)) t 5 [] in
  let h := bs ++ repeat 0%N (5 - length bs) in
  (mkPdc h (nth 1 h 0%N) (nth 2 h 0%N) t', e).

(* ProtocolDetectConn.Read(b), len(b) = n *)
Definition pd_read (p : pdc) (n : nat) : list byte * rerr * pdc :=
  match hdr p with
  | [] => let '(bs, e, t') := tread (raw p) n in (bs, e, mkPdc [] (major p) (minor p) t')
  | h =>
      if Nat.leb (length h) n then
        if Nat.ltb (length h) n then
          let '(bs, e, t') := tread (raw p) (n - length h) in
          (h ++ bs, e, mkPdc [] (major p) (minor p) t')
        else (h, NoErr, mkPdc [] (major p) (minor p) (raw p))
      else (firstn n h, NoErr, mkPdc (skipn n h) (major p) (minor p) (raw p))
  end.

(* a sequence of Reads with the given buffer sizes; stops at the first error *)
Fixpoint pd_reads (p : pdc) (sizes : list nat) : list (list byte * rerr) * pdc :=
  match sizes with
  | [] => ([], p)
  | n :: r =>
      let '(bs, e, p') := pd_read p n in
      match e with
      | NoErr => let '(rs, p'') := pd_reads p' r in ((bs, e) :: rs, p'')
      | _ => ([(bs, e)], p')
      end
  end.

(* detect: which stack serves the connection *)
Inductive route := RTlcp | RTls | RUnsupported | RNoConfig | RReadErr (e : rerr).

Definition detect (have_tlcp have_tls : bool) (t : transport) : route * pdc :=
  let '(p, e) := read_first_header t in
  match e with
  | NoErr =>
      if N.eqb (major p) 1 then (if have_tlcp then (RTlcp, p) else (RNoConfig, p))
      else if N.eqb (major p) 3 then (if have_tls then (RTls, p) else (RNoConfig, p))
      else (RUnsupported, p)
  | _ => (RReadErr e, p)
  end.

Definition wf_transport (t : transport) : Prop := Forall (fun c => c <> []) t.
