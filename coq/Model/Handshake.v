(* Message-order model of the TLCP (stream stack) handshake state machines:
     client : tlcp/handshake_client.go clientHandshake / handshake / doFullHandshake / readFinished
     server : tlcp/handshake_server.go serverHandshake / handshake / doFullHandshake / readFinished
     record : tlcp/conn.go readRecordOrCCS / retryReadRecord / readHandshake (what each record kind
              does at each point: warning alerts and the 16-record tolerance, ChangeCipherSpec only
              when expected and never with pending handshake bytes, application data only after
              completion)
   An event is one record as the endpoint receives it.  A handshake message event carries `ok`:
   the message's contents pass every check the receiver applies to that message at that point
   (version / suite / certificate chain / signature / Finished value ...; these checks are the
   subject of C01, C02, C07), and one auxiliary bit whose meaning depends on the kind.        *)
From Coq Require Export NArith Arith List Lia Bool.
Export ListNotations.

Inductive hs_kind :=
| ClientHello | ServerHello | Certificate | ServerKeyExchange | CertificateRequest
| ServerHelloDone | ClientKeyExchange | CertificateVerify | Finished.

Definition hs_eqb (a b : hs_kind) : bool :=
  match a, b with
  | ClientHello, ClientHello | ServerHello, ServerHello | Certificate, Certificate
  | ServerKeyExchange, ServerKeyExchange | CertificateRequest, CertificateRequest
  | ServerHelloDone, ServerHelloDone | ClientKeyExchange, ClientKeyExchange
  | CertificateVerify, CertificateVerify | Finished, Finished => true
  | _, _ => false
  end.

Inductive ev :=
| EHs (k : hs_kind) (ok aux : bool)  (* one whole handshake message in its own record *)
| EFrag      (* a handshake record holding the start of a message that never completes *)
| ECcs       (* change_cipher_spec, well formed *)
| EWarn      (* warning-level alert other than close_notify *)
| EApp       (* non-empty application data record *)
| EEnd.      (* fatal alert, close_notify, or end of transport *)

(* aux:  ServerHello  -> echoes the session id the client offered (and the cached session matches)
         ClientHello  -> offers a session the server can resume
         Certificate  -> (from a client) the certificate list is non-empty
         others       -> unused *)

Definition max_useless : nat := 16.

(* ------------------------------------------------------------------ client *)
Record cparams := mkCP {
  cp_ecdhe : bool;          (* the negotiated suite is ECDHE (CertificateRequest is mandatory) *)
  cp_offered : bool }.      (* the client offered a cached session *)

Inductive cstate :=
| C_SH                      (* waiting for ServerHello *)
| C_Cert | C_SKX | C_CRorSHD | C_SHD    (* full handshake: server flight *)
| C_CCS (resumed : bool)    (* waiting for ChangeCipherSpec *)
| C_Fin (resumed : bool)    (* waiting for Finished *)
| C_Done | C_Err.

(* st, retry counter, pending handshake bytes *)
Record cconf := mkCC { c_st : cstate; c_retry : nat; c_pend : bool }.

Definition cerr : cconf := mkCC C_Err 0 false.

Definition expects_ccs (s : cstate) : bool := match s with C_CCS _ => true | _ => false end.

Definition cstep (p : cparams) (c : cconf) (e : ev) : cconf :=
  match c_st c with
  | C_Done | C_Err => c
  | st =>
    match e with
    | EEnd => cerr
    | EApp => cerr                                   (* handshake not complete *)
    | EWarn => if Nat.ltb max_useless (S (c_retry c)) then cerr
               else mkCC st (S (c_retry c)) (c_pend c)
    | ECcs =>
        if c_pend c then cerr                        (* handshake bytes pending *)
        else match st with
             | C_CCS r => mkCC (C_Fin r) (c_retry c) false
             | _ => cerr                             (* not expected here *)
             end
    | EFrag =>
        if expects_ccs st then cerr                  (* handshake record while a CCS is expected *)
        else mkCC st 0 true
    | EHs k ok aux =>
        if expects_ccs st then cerr
        else if c_pend c then mkCC st 0 true         (* swallowed by the incomplete message *)
        else if negb ok then cerr
        else
          let next (s : cstate) := mkCC s 0 false in
          match st, k with
          | C_SH, ServerHello => if aux && cp_offered p then next (C_CCS true) else next C_Cert
          | C_Cert, Certificate => next C_SKX
          | C_SKX, ServerKeyExchange => next C_CRorSHD
          | C_CRorSHD, CertificateRequest => next C_SHD
          | C_CRorSHD, ServerHelloDone => if cp_ecdhe p then cerr else next (C_CCS false)
          | C_SHD, ServerHelloDone => next (C_CCS false)
          | C_Fin r, Finished => next C_Done
          | _, _ => cerr
          end
    end
  end.

Definition crun (p : cparams) (es : list ev) : cconf := fold_left (cstep p) es (mkCC C_SH 0 false).
Definition caccepts (p : cparams) (es : list ev) : bool :=
  match c_st (crun p es) with C_Done => true | _ => false end.

(* ------------------------------------------------------------------ server *)
Record sparams := mkSP {
  sp_certreq : bool }.      (* a CertificateRequest is sent (policy above NoClientCert, or ECDHE) *)

Inductive sstate :=
| S_CH
| S_Cert | S_CKX (have_cert : bool) | S_CV
| S_CCS (resumed : bool) | S_Fin (resumed : bool)
| S_Done | S_Err.

Record sconf := mkSC { s_st : sstate; s_retry : nat; s_pend : bool }.
Definition serr : sconf := mkSC S_Err 0 false.
Definition s_expects_ccs (s : sstate) : bool := match s with S_CCS _ => true | _ => false end.

Definition sstep (p : sparams) (c : sconf) (e : ev) : sconf :=
  match s_st c with
  | S_Done | S_Err => c
  | st =>
    match e with
    | EEnd => serr
    | EApp => serr
    | EWarn => if Nat.ltb max_useless (S (s_retry c)) then serr
               else mkSC st (S (s_retry c)) (s_pend c)
    | ECcs =>
        if s_pend c then serr
        else match st with
             | S_CCS r => mkSC (S_Fin r) (s_retry c) false
             | _ => serr
             end
    | EFrag =>
        if s_expects_ccs st then serr else mkSC st 0 true
    | EHs k ok aux =>
        if s_expects_ccs st then serr
        else if s_pend c then mkSC st 0 true
        else if negb ok then serr
        else
          let next (s : sstate) := mkSC s 0 false in
          match st, k with
          | S_CH, ClientHello =>
              if aux then next (S_CCS true)
              else if sp_certreq p then next S_Cert else next (S_CKX false)
          | S_Cert, Certificate => next (S_CKX aux)
          | S_CKX hc, ClientKeyExchange => if hc then next S_CV else next (S_CCS false)
          | S_CV, CertificateVerify => next (S_CCS false)
          | S_Fin r, Finished => next S_Done
          | _, _ => serr
          end
    end
  end.

Definition srun (p : sparams) (es : list ev) : sconf := fold_left (sstep p) es (mkSC S_CH 0 false).
Definition saccepts (p : sparams) (es : list ev) : bool :=
  match s_st (srun p es) with S_Done => true | _ => false end.

(* ------------------------------------------------------------------ the standard's language *)
(* A legal flow is a list of "items" (handshake messages with valid contents, and the
   ChangeCipherSpec), each possibly preceded by warning alerts; the run of warning alerts since
   the last handshake message never exceeds 16 (ChangeCipherSpec does not reset the count).    *)
Inductive item := IHs (k : hs_kind) (aux : bool) | ICcs.

Definition client_flows (p : cparams) : list (list item) :=
  (* resumed: ServerHello echoing the offered session, CCS, Finished *)
  (if cp_offered p then [[IHs ServerHello true; ICcs; IHs Finished false]] else []) ++
  (* full: ServerHello, Certificate, ServerKeyExchange, [CertificateRequest], ServerHelloDone, CCS, Finished *)
  flat_map (fun sh_aux =>
    (if cp_ecdhe p then [] else
       [[IHs ServerHello sh_aux; IHs Certificate false; IHs ServerKeyExchange false;
         IHs ServerHelloDone false; ICcs; IHs Finished false]]) ++
    [[IHs ServerHello sh_aux; IHs Certificate false; IHs ServerKeyExchange false;
      IHs CertificateRequest false; IHs ServerHelloDone false; ICcs; IHs Finished false]])
    (if cp_offered p then [false] else [false; true]).

Definition server_flows (p : sparams) : list (list item) :=
  [[IHs ClientHello true; ICcs; IHs Finished false]] ++
  (if sp_certreq p then
     [[IHs ClientHello false; IHs Certificate true; IHs ClientKeyExchange false;
       IHs CertificateVerify false; ICcs; IHs Finished false];
      [IHs ClientHello false; IHs Certificate false; IHs ClientKeyExchange false; ICcs; IHs Finished false]]
   else
     [[IHs ClientHello false; IHs ClientKeyExchange false; ICcs; IHs Finished false]]).

(* es realises flow `its`: the items in order, with valid contents, warnings interleaved within
   the tolerance; `budget` = warnings still allowed before the next handshake message.
   The auxiliary bit of kinds for which it is unused is ignored. *)
Definition aux_matters_c (k : hs_kind) : bool :=     (* client side *)
  match k with ServerHello => true | _ => false end.
Definition aux_matters_s (k : hs_kind) : bool :=     (* server side *)
  match k with ClientHello | Certificate => true | _ => false end.

Fixpoint realises (aux_matters : hs_kind -> bool) (budget : nat) (its : list item) (es : list ev) : bool :=
  match es with
  | [] => match its with [] => true | _ => false end
  | e :: rest =>
      match its with
      | [] => true                                  (* completed: whatever follows is post-handshake *)
      | it :: its' =>
          match e with
          | EWarn => match budget with O => false | S b => realises aux_matters b its rest end
          | ECcs => match it with ICcs => realises aux_matters budget its' rest | _ => false end
          | EHs k ok aux =>
              match it with
              | IHs k' aux' =>
                  hs_eqb k k' && ok && (negb (aux_matters k) || Bool.eqb aux aux') &&
                  realises aux_matters max_useless its' rest
              | ICcs => false
              end
          | _ => false
          end
      end
  end.

Definition clegal (p : cparams) (es : list ev) : bool :=
  existsb (fun f => realises aux_matters_c max_useless f es) (client_flows p).
Definition slegal (p : sparams) (es : list ev) : bool :=
  existsb (fun f => realises aux_matters_s max_useless f es) (server_flows p).
