(* Model of the application-data path of tlcp/conn.go on an unmodified transport:
   writer  : maxPayloadSizeForWrite (dynamic record sizing), writeRecordLocked splitting,
             the length of the record halfConn.encrypt produces, bytesSent / packetsSent;
   reader  : readFromUntil / atLeastReader filling rawInput from an arbitrarily segmented
             transport, readRecord taking one whole record, Conn.Read handing out the buffered
             plaintext.
   Protection is abstract here (C04/C05 treat it): a record on the wire is its 5-byte header
   (type, version, 16-bit length) followed by `length` opaque bytes, and `open` recovers the
   plaintext the writer sealed.  Sizes are Z for the writer arithmetic (Go int), nat for list
   lengths. *)
From Coq Require Export ZArith NArith Arith List Lia Bool.
Export ListNotations.

Definition byte := N.
Inductive mode := MGcm | MCbc.

(* ---------------- writer ---------------- *)
Open Scope Z_scope.

Definition max_plaintext : Z := 16384.
Definition mss : Z := 1208.
Definition boost : Z := 131072.         (* recordSizeBoostThreshold = 128 KiB *)

Record wstate := mkW { bytes_sent : Z; packets_sent : Z }.

(* payloadBytes after subtracting the TLS overheads *)
Definition base_payload (m : mode) : Z :=
  match m with
  | MGcm => mss - 5 - 8 - 16
  | MCbc => ((mss - 5 - 16) / 16 * 16) - 1 - 32
  end.

(* maxPayloadSizeForWrite(recordTypeApplicationData): returns the limit and the new state
   (packetsSent is incremented only when the ramp is consulted) *)
Definition max_payload (dyn_off : bool) (m : mode) (w : wstate) : Z * wstate :=
  if dyn_off then (max_plaintext, w)
  else if boost <=? bytes_sent w then (max_plaintext, w)
  else
    let pkt := packets_sent w in
    let w' := mkW (bytes_sent w) (pkt + 1) in
    if 1000 <? pkt then (max_plaintext, w')
    else let n := base_payload m * (pkt + 1) in
         ((if max_plaintext <? n then max_plaintext else n), w').

(* bytes on the wire for a record with n plaintext bytes *)
Definition wire_len (m : mode) (n : Z) : Z :=
  5 + match m with
      | MGcm => 8 + n + 16
      | MCbc => 16 + (n + 32 + (16 - (n + 32) mod 16))
      end.

(* writeRecordLocked on n bytes: plaintext sizes of the records, in order *)
Fixpoint write_sizes (fuel : nat) (dyn_off : bool) (m : mode) (w : wstate) (n : Z) : list Z * wstate :=
  match fuel with
  | O => ([], w)
  | S k =>
      if n <=? 0 then ([], w) else
      let '(mx, w1) := max_payload dyn_off m w in
      let c := if mx <? n then mx else n in
      let w2 := mkW (bytes_sent w1 + wire_len m c) (packets_sent w1) in
      let '(rest, w3) := write_sizes k dyn_off m w2 (n - c) in
      (c :: rest, w3)
  end.

(* a sequence of Write calls *)
Fixpoint writes_sizes (dyn_off : bool) (m : mode) (w : wstate) (ns : list Z) : list (list Z) * wstate :=
  match ns with
  | [] => ([], w)
  | n :: t =>
      let '(cs, w1) := write_sizes (Z.to_nat n) dyn_off m w n in
      let '(rest, w2) := writes_sizes dyn_off m w1 t in
      (cs :: rest, w2)
  end.

Close Scope Z_scope.

(* ---------------- splitting of the data itself ---------------- *)
Fixpoint cut (sizes : list Z) (data : list byte) : list (list byte) :=
  match sizes with
  | [] => []
  | s :: t => firstn (Z.to_nat s) data :: cut t (skipn (Z.to_nat s) data)
  end.

(* ---------------- reader ---------------- *)
(* the wire: each record is header (5 bytes, last two = length) ++ body; `body` stands for the
   protected form of one plaintext chunk.  The reader sees the concatenation, cut into transport
   chunks arbitrarily. *)
Definition transport := list (list byte).
Definition wf_transport (t : transport) : Prop := Forall (fun c => c <> []) t.

Definition hdr_of (len : nat) : list byte :=
  [23%N; 1%N; 1%N; N.of_nat (len / 256); N.of_nat (len mod 256)].
Definition frame (body : list byte) : list byte := hdr_of (length body) ++ body.

(* readFromUntil(n): read whole transport chunks until rawInput holds at least n bytes.
   Returns None if the transport ends first. *)
Fixpoint fill (raw : list byte) (t : transport) (need : nat) : option (list byte * transport) :=
  if Nat.leb need (length raw) then Some (raw, t)
  else match t with
       | [] => None
       | c :: r => fill (raw ++ c) r need
       end.

(* readRecord: header, then the whole record; returns the body and the new rawInput *)
Definition read_record (raw : list byte) (t : transport) : option (list byte * list byte * transport) :=
  match fill raw t 5 with
  | None => None
  | Some (raw1, t1) =>
      let n := N.to_nat (nth 3 raw1 0%N) * 256 + N.to_nat (nth 4 raw1 0%N) in
      match fill raw1 t1 (5 + n) with
      | None => None
      | Some (raw2, t2) => Some (firstn n (skipn 5 raw2), skipn (5 + n) raw2, t2)
      end
  end.

(* all records obtainable from a transport *)
Fixpoint read_records (fuel : nat) (raw : list byte) (t : transport) : list (list byte) :=
  match fuel with
  | O => []
  | S k => match read_record raw t with
           | None => []
           | Some (b, raw', t') => b :: read_records k raw' t'
           end
  end.

(* Conn.Read with buffered plaintext: `input` is what is left of the current record, `recs` the
   (opened) records still to come; buffer sizes are >= 1.  A Read never crosses a record. *)
Fixpoint conn_reads (input : list byte) (recs : list (list byte)) (bufs : list nat)
  : list (list byte) :=
  match bufs with
  | [] => []
  | b :: bt =>
      match input with
      | [] => match recs with
              | [] => []                                  (* would block / EOF *)
              | r :: rt => firstn b r :: conn_reads (skipn b r) rt bt   (* r <> [] for an honest writer *)
              end
      | _ => firstn b input :: conn_reads (skipn b input) recs bt
      end
  end.
