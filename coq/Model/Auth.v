(* Content-level authentication decisions of the handshake (both stacks share this code):
     client : verifyServerCertificate, processServerKeyExchange (ECC / ECDHE), readFinished,
              loadSession (resumption only after re-validation) — tlcp|dtlcp/handshake_client.go,
              key_agreement.go
     server : doFullHandshake (certificate request, CertificateVerify demanded iff a certificate
              was received), processCertsFromClient, checkForResumption /
              sessionSatisfiesClientAuth — tlcp|dtlcp/handshake_server.go
   External decisions (X.509 chain building and host-name matching, SM2 signature verification,
   the Finished comparison) are ORACLE inputs: the harness computes them independently with
   smx509 / sm2 on the bytes actually exchanged and the model says which of them a completed
   handshake implies. *)
From Coq Require Export Bool Arith List.
Export ListNotations.

(* ------------------------------------------------------------------ client side (C02) *)
Record server_view := mkSV {
  sv_ncerts : nat;          (* certificates in the Certificate message *)
  sv_parse_ok : bool;       (* all of them parse *)
  sv_chain_sig : bool;      (* oracle: certs[0] chains to the configured roots, is valid at the configured
                               time and (when a server name is configured) valid for that name *)
  sv_chain_enc : bool;      (* oracle: same for certs[1] *)
  sv_keytype_ok : bool;     (* certs[0] carries an SM2/ECDSA or RSA key *)
  sv_enckey_sm2 : bool;     (* certs[1] carries an SM2 key (needed to encrypt / agree) *)
  sv_skx_present : bool;    (* a ServerKeyExchange was received *)
  sv_skx_wellformed : bool; (* its length fields are consistent *)
  sv_sig_ok : bool;         (* oracle: the signature verifies under certs[0]'s key over
                               client_random || server_random || (enc certificate | ECDH params) of THIS handshake *)
  sv_fin_ok : bool          (* the Finished equals PRF(master, "server finished", H(transcript)) with the
                               master secret this client derived *)
}.

Record client_cfg := mkCC { cc_insecure : bool }.

Definition client_full_accepts (c : client_cfg) (v : server_view) : bool :=
  Nat.leb 2 (sv_ncerts v) && sv_parse_ok v &&
  (cc_insecure c || (sv_chain_sig v && sv_chain_enc v)) &&
  sv_keytype_ok v && sv_enckey_sm2 v &&
  sv_skx_present v && sv_skx_wellformed v && sv_sig_ok v && sv_fin_ok v.

(* resumption: the session is offered only if its recorded certificates pass under the current
   configuration (or verification is disabled); it then completes iff the Finished is right *)
Record resume_view := mkRV {
  rv_sess_chain_ok : bool;  (* oracle: both recorded certificates pass chain/validity/name now *)
  rv_server_echo : bool;    (* the server echoed the offered session id *)
  rv_fin_ok : bool }.

Definition client_offers_session (c : client_cfg) (r : resume_view) : bool :=
  cc_insecure c || rv_sess_chain_ok r.

Definition client_resume_accepts (c : client_cfg) (r : resume_view) : bool :=
  client_offers_session c r && rv_server_echo r && rv_fin_ok r.

(* ------------------------------------------------------------------ server side (C07) *)
Inductive policy :=
| NoClientCert | RequestClientCert | RequireAnyClientCert
| VerifyClientCertIfGiven | RequireAndVerifyClientCert | RequireAndVerifyAnyKeyUsageClientCert.

Definition policy_rank (p : policy) : nat :=
  match p with
  | NoClientCert => 0 | RequestClientCert => 1 | RequireAnyClientCert => 2
  | VerifyClientCertIfGiven => 3 | RequireAndVerifyClientCert => 4
  | RequireAndVerifyAnyKeyUsageClientCert => 5
  end.

Definition requires_cert (p : policy) : bool :=
  match p with
  | RequireAnyClientCert | RequireAndVerifyClientCert | RequireAndVerifyAnyKeyUsageClientCert => true
  | _ => false
  end.
Definition verifies_cert (p : policy) : bool := Nat.leb 3 (policy_rank p).

(* the policy that decides whether a certificate is requested (ECDHE always requests) *)
Definition requests_cert (p : policy) (ecdhe : bool) : bool :=
  if ecdhe then true else Nat.leb 1 (policy_rank p).

Record client_view := mkCV {
  cv_cert_msg : bool;       (* a Certificate message was received (sent iff requested) *)
  cv_ncerts : nat;
  cv_parse_ok : bool;
  cv_chain_ok : bool;       (* oracle: certs[0] chains to the client roots, in date, with the key usages the
                               policy asks for (ClientAuth/ServerAuth, or any for ...AnyKeyUsage) *)
  cv_chain_enc_ok : bool;   (* oracle: same for certs[1] (ECDHE only) *)
  cv_keytype_ok : bool;
  cv_ckx_ok : bool;         (* the key exchange body is well formed and yields a pre-master secret *)
  cv_verify_msg : bool;     (* a CertificateVerify was received *)
  cv_verify_ok : bool;      (* oracle: its signature verifies under certs[0]'s key over H(handshake so far) *)
  cv_fin_ok : bool }.

Definition server_full_accepts (p : policy) (ecdhe : bool) (v : client_view) : bool :=
  let req := requests_cert p ecdhe in
  Bool.eqb (cv_cert_msg v) req &&
  (if req then
     cv_parse_ok v &&
     negb (Nat.eqb (cv_ncerts v) 0 && requires_cert p) &&
     negb (ecdhe && Nat.ltb (cv_ncerts v) 2) &&
     (negb (verifies_cert p && negb (Nat.eqb (cv_ncerts v) 0)) || (cv_chain_ok v && (negb ecdhe || cv_chain_enc_ok v))) &&
     (Nat.eqb (cv_ncerts v) 0 || cv_keytype_ok v)
   else true) &&
  cv_ckx_ok v &&
  (* CertificateVerify demanded iff a (non-empty) certificate was received *)
  (let have := req && negb (Nat.eqb (cv_ncerts v) 0) in
   Bool.eqb (cv_verify_msg v) have && (negb have || cv_verify_ok v)) &&
  cv_fin_ok v.

(* what the server reports after completion *)
Definition peer_certs_nonempty (p : policy) (ecdhe : bool) (v : client_view) : bool :=
  requests_cert p ecdhe && negb (Nat.eqb (cv_ncerts v) 0).
Definition verified_chains_nonempty (p : policy) (ecdhe : bool) (v : client_view) : bool :=
  requests_cert p ecdhe && verifies_cert p && negb (Nat.eqb (cv_ncerts v) 0).

(* resumption on the server: the cached session is resumed only if its recorded client
   certificates satisfy the policy in force *)
Record session_view := mkSeV {
  se_ncerts : nat;
  se_chain_ok : bool;       (* oracle: recorded certs[0] (and certs[1] for ECDHE) verify under the current roots/time/usages *)
  se_ecdhe : bool }.

Definition session_satisfies (p : policy) (s : session_view) : bool :=
  if Nat.eqb (se_ncerts s) 0 then negb (requires_cert p)
  else if negb (verifies_cert p) then true
  else negb (se_ecdhe s && Nat.ltb (se_ncerts s) 2) && se_chain_ok s.

(* declarative table of the property: which policy allows which client behaviour *)
Definition policy_allows (p : policy) (ncerts : nat) (chain_ok : bool) : bool :=
  match p with
  | NoClientCert | RequestClientCert => true
  | RequireAnyClientCert => negb (Nat.eqb ncerts 0)
  | VerifyClientCertIfGiven => Nat.eqb ncerts 0 || chain_ok
  | RequireAndVerifyClientCert | RequireAndVerifyAnyKeyUsageClientCert => negb (Nat.eqb ncerts 0) && chain_ok
  end.
