(* Concrete instances of Model/Mitm.v and the byte-level channel used by the correspondence.

   1. Finished codecs: the tlcp one (type 20, 24-bit length, verify_data) and a length-unbounded
      toy one used with the free (injective by construction) hash / PRF;
   2. readHandshake's type switch + unmarshal through the C14 decoders (Model/CodecAll.v), with
      their Panic outcome propagated: the no-panic theorem of C03 is about this layer;
   3. the stream channel: endpoints of Model/Mitm.v instantiated with the handshake messages of a
      captured untampered handshake, their records framed as tlcp/conn.go writeRecordLocked
      frames them, a scripted middle that edits the byte stream record by record exactly as the
      Go harness does (tk.Wire.Edit / Cut), and the receiving half of readRecordOrCCS during a
      handshake (record header checks, idealised record protection after the ChangeCipherSpec);
   4. the datagram trace evaluation (events handed to each endpoint -> Model/Mitm.v dc_step /
      ds_step).
   No proofs here. *)
From V Require Export Model.Mitm.
From V Require Import Model.CodecAll.
Local Open Scope N_scope.

(* ------------------------------------------------------------------ 1. Finished codecs *)
Definition blen (b : Mitm.bytes) : N := N.of_nat (length b).
Definition u24 (n : N) : Mitm.bytes := [n / 65536; (n / 256) mod 256; n mod 256].

Definition t_fin_mk (v : Mitm.bytes) : msg := 20 :: u24 (blen v) ++ v.
Definition t_fin_parse (m : msg) : option Mitm.bytes :=
  match m with
  | t :: a :: b :: c :: body =>
      if (t =? 20) && (a <? 256) && (b <? 256) && (c <? 256) && (blen body =? a * 65536 + b * 256 + c)
      then Some body else None
  | _ => None
  end.

(* toy codec: the whole length sits in the last length position (model bytes are unbounded N) *)
Definition free_fin_mk (v : Mitm.bytes) : msg := [20; 0; 0; blen v] ++ v.
Definition free_fin_parse (m : msg) : option Mitm.bytes :=
  match m with
  | t :: a :: b :: c :: body =>
      if (t =? 20) && (a =? 0) && (b =? 0) && (blen body =? c) then Some body else None
  | _ => None
  end.

(* free hash and PRF: the digest is the input, the verify_data is label || digest *)
Definition free_crypto : crypto :=
  mkK (fun b => b) (fun _ l d => (if l then 1 else 2) :: d) free_fin_mk free_fin_parse.

(* dtlcp: 12-byte header (type, length, message_seq, fragment_offset, fragment_length) *)
Definition free_dfin_mk (v : Mitm.bytes) : msg := [20; 0; 0; blen v; 0; 0; 0; 0; 0; 0; 0; blen v] ++ v.
Definition free_dfin_parse (m : msg) : option Mitm.bytes :=
  match m with
  | t :: a :: b :: c :: _ :: _ :: _ :: _ :: _ :: _ :: _ :: _ :: body =>
      if (t =? 20) && (a =? 0) && (b =? 0) && (blen body =? c) then Some body else None
  | _ => None
  end.
Definition free_crypto_d : crypto :=
  mkK (fun b => b) (fun _ l d => (if l then 1 else 2) :: d) free_dfin_mk free_dfin_parse.

(* ------------------------------------------------------------------ 2. readHandshake: type switch + unmarshal *)
Definition mt_of_type (st : stack) (t : N) : option mt :=
  match t with
  | 1 => Some mCH | 2 => Some mSH | 11 => Some mCERT | 12 => Some mSKX | 13 => Some mCREQ
  | 14 => Some mSHD | 15 => Some mCV | 16 => Some mCKX | 20 => Some mFIN
  | 3 => match st with SD => Some mHVR | ST => None end
  | _ => None
  end.

Definition parse_msg (st : stack) (m : msg) : res (dh * fields) :=
  match mt_of_type st (mtype m) with
  | Some k => decode st k m
  | None => Reject
  end.

(* an endpoint step guarded by the parser: Panic if the decoder panics, failure if it rejects *)
Inductive outcome (A : Type) := Next (a : A) | Panicked (site : nat).
Arguments Next {A}.
Arguments Panicked {A}.

Definition guarded {A} (st : stack) (step : A -> witem -> A) (fail : A -> A) (a : A) (it : witem) : outcome A :=
  match it with
  | WCcs => Next (step a WCcs)
  | WMsg m =>
      match parse_msg st m with
      | Ok _ => Next (step a (WMsg m))
      | Reject => Next (fail a)
      | Panic s => Panicked s
      end
  end.

Fixpoint guarded_run {A} (st : stack) (step : A -> witem -> A) (fail : A -> A) (a : A) (its : list witem) : outcome A :=
  match its with
  | [] => Next a
  | it :: t => match guarded st step fail a it with
               | Next a' => guarded_run st step fail a' t
               | Panicked s => Panicked s
               end
  end.

(* the negotiated parameters as the ServerHello on the wire carries them *)
Record shview := mkV { v_vers : N; v_suite : N; v_sid : Mitm.bytes; v_alpn : Mitm.bytes }.
Definition sh_view (st : stack) (m : msg) : option shview :=
  match decode st mSH m with
  | Ok (_, FSH x) => Some (mkV (sh_vers x) (sh_suite x) (sh_sid x) (sh_alpn x))
  | _ => None
  end.
Definition cert_list (st : stack) (m : msg) : option (list Mitm.bytes) :=
  match decode st mCERT m with
  | Ok (_, FCert cs) => Some cs
  | _ => None
  end.

(* ------------------------------------------------------------------ 3. the stream channel *)
Record tbase := mkTB {
  tb_hello : msg;
  tb_flight1 : list msg;       (* ServerHello .. ServerHelloDone, or [ServerHello] *)
  tb_flight2 : list msg;       (* Certificate?, ClientKeyExchange, CertificateVerify? *)
  tb_resumed : bool;
  tb_certreq : bool;
  tb_ecdhe : bool;
  tb_cfin : Mitm.bytes;        (* the client's sealed Finished record as captured *)
  tb_sfin : Mitm.bytes }.

Definition base_cside (b : tbase) : cside :=
  mkCS (fun _ _ => true) (fun _ _ => tb_resumed b) (fun _ => tb_ecdhe b) (fun _ _ => true)
       (fun _ => tb_flight2 b) (fun _ => []).
Definition base_sside (b : tbase) : sside :=
  mkSS (fun _ => true) (fun _ => tb_resumed b) (fun _ => tb_certreq b) (fun _ => tb_flight1 b)
       (fun m => 7 <? blen m) (fun _ _ => true) (fun _ => []).

(* one record the sender wrote: its wire bytes, and for a sealed record what it opens to *)
Record wrec := mkWR { wr_wire : Mitm.bytes; wr_plain : option Mitm.bytes }.

Definition rec_hdr (typ : N) (n : N) : Mitm.bytes := [typ; 1; 1; n / 256; n mod 256].
Definition plain_rec (typ : N) (payload : Mitm.bytes) : wrec :=
  mkWR (rec_hdr typ (blen payload) ++ payload) None.

(* writeHandshakeRecord / writeChangeCipherRecord: what the new Out entries of the log put on the wire *)
Fixpoint emit (sealed_wire : Mitm.bytes) (after_ccs : bool) (its : list witem) : list wrec * bool :=
  match its with
  | [] => ([], after_ccs)
  | WCcs :: t => let '(r, a) := emit sealed_wire true t in (plain_rec 20 [1] :: r, a)
  | WMsg m :: t =>
      let '(r, a) := emit sealed_wire after_ccs t in
      ((if after_ccs then mkWR sealed_wire (Some m) else plain_rec 22 m) :: r, a)
  end.

(* the scripted middle *)
Inductive edit :=
| EFlip (to_server : bool) (idx : nat) (off : nat) (mask : N)   (* byte off of the sender's record idx *)
| EDrop (to_server : bool) (idx : nat)
| EDup (to_server : bool) (idx : nat)
| ESwap (to_server : bool) (idx : nat)                           (* records idx and idx+1 change places *)
| ECut (to_server : bool) (at_ : nat)                            (* the receiver sees the end of the stream after at_ bytes *)
| EInject (to_server : bool) (idx : nat) (after : bool) (data : Mitm.bytes)  (* extra bytes before / after record idx *)
| ESplit (to_server : bool) (idx : nat) (at_ : nat)              (* a plaintext record re-framed as two records *)
| EMerge (to_server : bool) (idx : nat)                          (* plaintext records idx and idx+1 re-framed as one *)
| EAppend (to_server : bool) (idx : nat) (data : Mitm.bytes).    (* extra bytes at the end of plaintext record idx *)

Fixpoint flip_at (l : Mitm.bytes) (off : nat) (mask : N) : Mitm.bytes :=
  match l, off with
  | [], _ => []
  | x :: t, O => N.lxor x mask :: t
  | x :: t, S k => x :: flip_at t k mask
  end.

(* what leaves the middle for one sender record; `held` is a record kept back by ESwap / EMerge *)
Definition raw (b : Mitm.bytes) : wrec := mkWR b None.
Definition payload_of (r : wrec) : Mitm.bytes := skipn 5 (wr_wire r).
Definition typ_of (r : wrec) : N := hd 0 (wr_wire r).

Definition apply_edit (e : edit) (to_server : bool) (idx : nat) (r : wrec) (held : option wrec)
  : list wrec * option wrec :=
  let same (ts : bool) (i : nat) := Bool.eqb ts to_server && Nat.eqb i idx in
  match e with
  | EFlip ts i off mask =>
      if same ts i then
        let w := flip_at (wr_wire r) off mask in
        ([if bytes_eqb w (wr_wire r) then r else raw w], held)
      else ([r], held)
  | EDrop ts i => if same ts i then ([], held) else ([r], held)
  | EDup ts i => if same ts i then ([r; r], held) else ([r], held)
  | ESwap ts i =>
      if same ts i then ([], Some r)
      else if same ts (S i) then (match held with Some h => [r; h] | None => [r] end, None)
      else ([r], held)
  | ECut _ _ => ([r], held)
  | EInject ts i after data =>
      if same ts i then ((if after then [r; raw data] else [raw data; r]), held) else ([r], held)
  | ESplit ts i at_ =>
      if same ts i then
        let p := payload_of r in
        ([plain_rec (typ_of r) (firstn at_ p); plain_rec (typ_of r) (skipn at_ p)], held)
      else ([r], held)
  | EMerge ts i =>
      if same ts i then ([], Some r)
      else if same ts (S i) then
        (match held with
         | Some h => [plain_rec (typ_of h) (payload_of h ++ payload_of r)]
         | None => [r]
         end, None)
      else ([r], held)
  | EAppend ts i data =>
      if same ts i then ([plain_rec (typ_of r) (payload_of r ++ data)], held) else ([r], held)
  end.

Definition cut_of (e : edit) (to_server : bool) : option nat :=
  match e with ECut ts n => if Bool.eqb ts to_server then Some n else None | _ => None end.

(* the receiving half: bytes not yet consumed, the sender's sealed records still expected, bytes
   delivered so far (for ECut), end of stream *)
Record rx := mkRX {
  rx_buf : Mitm.bytes;                      (* concatenated wire bytes *)
  rx_marks : list (nat * Mitm.bytes * Mitm.bytes); (* sealed records in the buffer: (offset from the start of all delivered bytes, wire, plaintext) *)
  rx_delivered : nat;                       (* bytes ever appended *)
  rx_consumed : nat;                        (* bytes taken off the front *)
  rx_eof : bool }.

Definition rx_init : rx := mkRX [] [] 0 0 false.

(* append one record coming out of the middle, honouring a cut *)
Definition rx_push (cut : option nat) (x : rx) (r : wrec) : rx :=
  if rx_eof x then x else
  let w := wr_wire r in
  let room := match cut with Some n => n - rx_delivered x | None => length w end%nat in
  if Nat.ltb room (length w) then
    mkRX (rx_buf x ++ firstn room w) (rx_marks x) (rx_delivered x + room)%nat (rx_consumed x) true
  else
    mkRX (rx_buf x ++ w)
         (match wr_plain r with
          | Some p => rx_marks x ++ [(rx_delivered x, w, p)]
          | None => rx_marks x
          end)
         (rx_delivered x + length w)%nat (rx_consumed x)
         (match cut with Some n => Nat.eqb (rx_delivered x + length w) n | None => false end).

Definition max_ciphertext : N := 18432.
Definition max_plaintext : N := 16384.

Inductive rd := RdNeed | RdEv (e : rec_ev) (local : bool) (x : rx).
(* local = the endpoint itself refuses the record (it sends an alert), as opposed to being told
   (fatal alert received, end of stream) *)

(* one readRecordOrCCS: have_vers = the version is fixed; sealed = the read cipher is on;
   opened = number of sealed records opened so far *)
Definition read_rec (have_vers sealed : bool) (x : rx) : rd :=
  let b := rx_buf x in
  if Nat.ltb (length b) 5 then (if rx_eof x then RdEv REnd false x else RdNeed) else
  let typ := nth 0 b 0 in
  let vers := nth 1 b 0 * 256 + nth 2 b 0 in
  let n := nth 3 b 0 * 256 + nth 4 b 0 in
  if typ =? 128 then RdEv REnd true x else
  if have_vers && negb (vers =? 257) then RdEv REnd true x else
  if negb have_vers && (negb ((typ =? 21) || (typ =? 22)) || (4096 <=? vers)) then RdEv REnd true x else
  if max_ciphertext <? n then RdEv REnd true x else
  let total := (5 + N.to_nat n)%nat in
  if Nat.ltb (length b) total then (if rx_eof x then RdEv REnd false x else RdNeed) else
  let rec := firstn total b in
  let x' := mkRX (skipn total b) (rx_marks x) (rx_delivered x) (rx_consumed x + total)%nat (rx_eof x) in
  let body :=
    if sealed then
      match find (fun mk => Nat.eqb (fst (fst mk)) (rx_consumed x)) (rx_marks x) with
      | Some (_, w, p) => if bytes_eqb w rec then Some (p, rx_marks x) else None
      | None => None
      end
    else Some (skipn 5 rec, rx_marks x) in
  match body with
  | None => RdEv REnd true x'                                   (* bad record MAC *)
  | Some (data, marks') =>
      let x'' := mkRX (rx_buf x') marks' (rx_delivered x') (rx_consumed x') (rx_eof x') in
      if max_plaintext <? blen data then RdEv REnd true x'' else
      if typ =? 21 then
        match data with
        | [lvl; code] =>
            if code =? 0 then RdEv REnd false x''
            else if lvl =? 1 then RdEv RWarn false x''
            else if lvl =? 2 then RdEv REnd false x''
            else RdEv REnd true x''
        | _ => RdEv REnd true x''
        end
      else if typ =? 20 then
        match data with
        | [1] => RdEv RCcs true x''
        | _ => RdEv REnd true x''
        end
      else if typ =? 23 then RdEv RApp true x''
      else if typ =? 22 then RdEv (RHs data) true x''
      else RdEv REnd true x''
  end.

(* one endpoint of the simulation *)
Record wend (A : Type) := mkWE {
  we_conn : tconn A;
  we_rx : rx;
  we_sent : nat;            (* Out entries of the log already put on the wire *)
  we_after_ccs : bool;      (* own ChangeCipherSpec written *)
  we_local : bool;          (* the failure was raised by this endpoint at the record layer / order level *)
  we_warns : nat }.
Arguments mkWE {A}.
Arguments we_conn {A}.
Arguments we_rx {A}.
Arguments we_sent {A}.
Arguments we_after_ccs {A}.
Arguments we_local {A}.
Arguments we_warns {A}.

Section WireSim.
Variable b : tbase.
Variable edits : list edit.

Definition K0 := free_crypto.
Definition c_step0 := tc_step K0 (base_cside b).
Definition s_step0 := ts_step K0 (base_sside b).

Definition cut_for (to_server : bool) : option nat :=
  fold_left (fun acc e => match cut_of e to_server with Some n => Some n | None => acc end) edits None.

(* all edits on one sender record (each edit concerns its own record; they compose left to right) *)
Fixpoint through (es : list edit) (to_server : bool) (idx : nat) (rs : list wrec) (held : option wrec)
  : list wrec * option wrec :=
  match es with
  | [] => (rs, held)
  | e :: t =>
      let '(out, h) :=
        fold_left (fun acc r => let '(o, h0) := acc in
                                let '(o1, h1) := apply_edit e to_server idx r h0 in (o ++ o1, h1))
                  rs ([], held) in
      through t to_server idx out h
  end.

(* process everything readable at an endpoint *)
Section Pump.
Variable A : Type.
Variable stepf : tconn A -> rec_ev -> tconn A.
Variable wantf : A -> want.
Variable have_vers : A -> bool.
Variable sealed_in : A -> bool.
Variable donef : A -> bool.

Definition alive (t : tconn A) : bool :=
  negb (t_fail t) && match wantf (t_hs t) with WantNone => false | _ => true end.

Fixpoint pump (fuel : nat) (e : wend A) : wend A :=
  match fuel with
  | O => e
  | S f =>
      if negb (alive (we_conn e)) then e else
      match read_rec (have_vers (t_hs (we_conn e))) (sealed_in (t_hs (we_conn e))) (we_rx e) with
      | RdNeed => e
      | RdEv ev local x =>
          let t' := stepf (we_conn e) ev in
          (* refused by the endpoint itself, and not a Finished that does not verify (which, in
             the implementation, an earlier contents check of either side may pre-empt) *)
          let refused := negb (alive t') && negb (donef (t_hs t')) && local &&
                         negb (sealed_in (t_hs (we_conn e))) in
          pump f (mkWE t' x (we_sent e) (we_after_ccs e) (we_local e || refused) (we_warns e))
      end
  end.
End Pump.

Definition c_have_vers (c : chs) : bool := match ch_st c with C_SH => false | _ => true end.
Definition s_have_vers (s : shs) : bool := match sh_st s with S_CH => false | _ => true end.
Definition c_sealed_in (c : chs) : bool := match ch_st c with C_Fin _ | C_Done => true | _ => false end.
Definition s_sealed_in (s : shs) : bool := match sh_st s with S_Fin _ | S_Done => true | _ => false end.

Record sim := mkSim {
  sm_c : wend chs;
  sm_s : wend shs;
  sm_c2s_idx : nat;  sm_c2s_held : option wrec;
  sm_s2c_idx : nat;  sm_s2c_held : option wrec }.

(* put the endpoint's new output through the middle into the peer's receive buffer *)
Fixpoint feed (to_server : bool) (rs : list wrec) (idx : nat) (held : option wrec) (x : rx)
  : nat * option wrec * rx :=
  match rs with
  | [] => (idx, held, x)
  | r :: t =>
      let '(out, h) := through edits to_server idx [r] held in
      feed to_server t (S idx) h (fold_left (rx_push (cut_for to_server)) out x)
  end.

Definition c_flush (s : sim) : sim :=
  let c := sm_c s in
  let all := sent_items (ch_log (t_hs (we_conn c))) in
  let fresh := skipn (we_sent c) all in
  let '(recs, after) := emit (tb_cfin b) (we_after_ccs c) fresh in
  let '(idx, held, x) := feed true recs (sm_c2s_idx s) (sm_c2s_held s) (we_rx (sm_s s)) in
  mkSim (mkWE (we_conn c) (we_rx c) (length all) after (we_local c) (we_warns c))
        (mkWE (we_conn (sm_s s)) x (we_sent (sm_s s)) (we_after_ccs (sm_s s)) (we_local (sm_s s)) (we_warns (sm_s s)))
        idx held (sm_s2c_idx s) (sm_s2c_held s).

Definition s_flush (s : sim) : sim :=
  let v := sm_s s in
  let all := sent_items (sh_log (t_hs (we_conn v))) in
  let fresh := skipn (we_sent v) all in
  let '(recs, after) := emit (tb_sfin b) (we_after_ccs v) fresh in
  let '(idx, held, x) := feed false recs (sm_s2c_idx s) (sm_s2c_held s) (we_rx (sm_c s)) in
  mkSim (mkWE (we_conn (sm_c s)) x (we_sent (sm_c s)) (we_after_ccs (sm_c s)) (we_local (sm_c s)) (we_warns (sm_c s)))
        (mkWE (we_conn v) (we_rx v) (length all) after (we_local v) (we_warns v))
        (sm_c2s_idx s) (sm_c2s_held s) idx held.

Definition sim_init : sim :=
  mkSim (mkWE (mkT (chs_init (tb_hello b)) [] 0%nat false) rx_init 0%nat false false 0%nat)
        (mkWE (mkT shs_init [] 0%nat false) rx_init 0%nat false false 0%nat)
        0%nat None 0%nat None.

Definition sim_round (s : sim) : sim :=
  let s1 := c_flush s in
  let sv := pump shs s_step0 s_want s_have_vers s_sealed_in s_done 64 (sm_s s1) in
  let s2 := s_flush (mkSim (sm_c s1) sv (sm_c2s_idx s1) (sm_c2s_held s1) (sm_s2c_idx s1) (sm_s2c_held s1)) in
  let cv := pump chs c_step0 c_want c_have_vers c_sealed_in c_done 64 (sm_c s2) in
  mkSim cv (sm_s s2) (sm_c2s_idx s2) (sm_c2s_held s2) (sm_s2c_idx s2) (sm_s2c_held s2).

Fixpoint rounds (n : nat) (s : sim) : sim :=
  match n with O => s | S k => rounds k (sim_round s) end.

Definition sim_final : sim := rounds 6 sim_init.

Record verdict := mkVd {
  vd_c_ok : bool; vd_s_ok : bool;
  vd_c_local : bool; vd_s_local : bool;     (* failed by refusing a record itself (record layer / order) *)
  vd_mirror : bool;                          (* both complete: the logs are mirror images *)
  vd_honest : bool }.                        (* both complete: the transcript is the untampered one *)

Fixpoint log_eqb (a c : log) : bool :=
  match a, c with
  | [], [] => true
  | (d1, WCcs) :: a', (d2, WCcs) :: c' => Bool.eqb (match d1 with Out => true | In => false end) (match d2 with Out => true | In => false end) && log_eqb a' c'
  | (d1, WMsg m1) :: a', (d2, WMsg m2) :: c' =>
      Bool.eqb (match d1 with Out => true | In => false end) (match d2 with Out => true | In => false end) && bytes_eqb m1 m2 && log_eqb a' c'
  | _, _ => false
  end.

Fixpoint msgs_eqb (a c : list msg) : bool :=
  match a, c with
  | [], [] => true
  | x :: a', y :: c' => bytes_eqb x y && msgs_eqb a' c'
  | _, _ => false
  end.

Definition base_pre : list msg :=
  if tb_resumed b then tb_hello b :: tb_flight1 b else tb_hello b :: tb_flight1 b ++ tb_flight2 b.

Definition wire_verdict : verdict :=
  let f := sim_final in
  let c := we_conn (sm_c f) in let s := we_conn (sm_s f) in
  let cok := c_done (t_hs c) in let sok := s_done (t_hs s) in
  mkVd cok sok (negb cok && we_local (sm_c f)) (negb sok && we_local (sm_s f))
       (cok && sok && log_eqb (sh_log (t_hs s)) (mirror (ch_log (t_hs c))))
       (cok && sok && msgs_eqb (firstn (length base_pre) (msgs_of (ch_log (t_hs c)))) base_pre).
End WireSim.

(* the records an untampered run of the model puts on the wire, per direction (to compare with
   the capture: the model's framing is the implementation's) *)
Definition honest_wire (b : tbase) : list Mitm.bytes * list Mitm.bytes :=
  let hello := tb_hello b in
  if tb_resumed b then
    (map wr_wire (fst (emit (tb_cfin b) false [WMsg hello])) ++ [wr_wire (plain_rec 20 [1]); tb_cfin b],
     map wr_wire (fst (emit (tb_sfin b) false (map WMsg (tb_flight1 b)))) ++ [wr_wire (plain_rec 20 [1]); tb_sfin b])
  else
    (map wr_wire (fst (emit (tb_cfin b) false (map WMsg (hello :: tb_flight2 b)))) ++ [wr_wire (plain_rec 20 [1]); tb_cfin b],
     map wr_wire (fst (emit (tb_sfin b) false (map WMsg (tb_flight1 b)))) ++ [wr_wire (plain_rec 20 [1]); tb_sfin b]).

(* ------------------------------------------------------------------ 4. datagram stack: what an endpoint was handed *)
(* The distinct records of an untampered dtlcp handshake, per direction.  A run in which every
   record handed to the endpoints is one of these (dropped, duplicated, reordered, replayed,
   re-packed datagrams; retransmissions are byte-identical) is evaluated record by record as
   dtlcp/conn.go readRecordOrCCS does: epoch filter, the early ChangeCipherSpec that is skipped
   without being registered, the replay window, then Model/Mitm.v dc_step / ds_step. *)
Record dbase := mkDB {
  db_hello0 : msg; db_hvr : msg; db_hello : msg;
  db_flight1 : list msg; db_flight2 : list msg;
  db_resumed : bool; db_certreq : bool; db_ecdhe : bool }.

Definition dbase_c (b : dbase) : dcside :=
  mkDCS (db_hello0 b) (fun _ => db_hello b)
        (mkCS (fun _ _ => true) (fun _ _ => db_resumed b) (fun _ => db_ecdhe b) (fun _ _ => true)
              (fun _ => db_flight2 b) (fun _ => [])).
Definition dbase_s (b : dbase) : dsside :=
  mkDSS (fun m => bytes_eqb m (db_hello b))
        (mkSS (fun _ => true) (fun _ => db_resumed b) (fun _ => db_certreq b) (fun _ => db_flight1 b)
              (fun m => 15 <? blen m) (fun _ _ => true) (fun _ => [])).

Definition KD := free_crypto_d.

Definition last_out_msg (l : log) : msg :=
  match last (sent_items l) WCcs with WMsg m => m | WCcs => [] end.
Definition dc_log (c : dcconn) : log := match dc_ph c with DCMain h => ch_log h | _ => [] end.
Definition ds_log (c : dsconn) : log := match ds_ph c with DSMain h => sh_log h | _ => [] end.

(* the Finished messages of the untampered run of the model: (client's, server's) *)
Definition d_honest_fins (b : dbase) : msg * msg :=
  if db_resumed b then
    let fs := last_out_msg (ds_log (ds_run KD (dbase_s b) [GMsg (db_hello0 b); GMsg (db_hello b)])) in
    let fc := last_out_msg (dc_log (dc_run KD (dbase_c b)
                 (GMsg (db_hvr b) :: map GMsg (db_flight1 b) ++ [GCcs; GMsg fs]))) in
    (fc, fs)
  else
    let fc := last_out_msg (dc_log (dc_run KD (dbase_c b) (GMsg (db_hvr b) :: map GMsg (db_flight1 b)))) in
    let fs := last_out_msg (ds_log (ds_run KD (dbase_s b)
                 (GMsg (db_hello0 b) :: GMsg (db_hello b) :: map GMsg (db_flight2 b) ++ [GCcs; GMsg fc]))) in
    (fc, fs).

Record drec := mkDR { dr_typ : N; dr_epoch : N; dr_seq : N; dr_payload : Mitm.bytes }.
Definition parse_drec (r : Mitm.bytes) : drec :=
  mkDR (nth 0 r 0) (nth 3 r 0 * 256 + nth 4 r 0)
       (fold_left (fun acc x => acc * 256 + x) (firstn 6 (skipn 5 r)) 0)
       (skipn 13 r).

(* receiving half: the endpoint's connection state, read epoch, sequence numbers seen in it *)
Section DTrace.
Variable A : Type.
Variable stepf : A -> dgev -> A.
Variable wants_ccs : A -> bool.      (* readChangeCipherSpec is what the handshake code is in *)
Variable live : A -> bool.           (* handshake neither complete nor failed *)
Variable pending : A -> bool.        (* bytes of an incomplete message in handBuf *)
Variable sealed_plain : msg.         (* what the peer's epoch-1 record opens to *)

Definition d_rx (st : A * N * list N) (r : drec) : A * N * list N :=
  let '(a, ep, seen) := st in
  if negb (live a) then st else
  if negb (dr_epoch r =? ep) then st else
  if (dr_typ r =? 20) && negb (wants_ccs a) && negb (pending a) then st else
  if existsb (N.eqb (dr_seq r)) seen then st else
  let seen' := dr_seq r :: seen in
  let ev := if dr_typ r =? 22 then (if ep =? 0 then GMsg (dr_payload r) else GMsg sealed_plain)
            else if dr_typ r =? 20 then (match dr_payload r with [1] => GCcs | _ => GEnd end)
            else if dr_typ r =? 23 then GApp
            else GEnd in
  let a' := stepf a ev in
  if (dr_typ r =? 20) && wants_ccs a && negb (wants_ccs a') && live a' then (a', ep + 1, [])
  else (a', ep, seen').
End DTrace.

Definition dc_wants_ccs (c : dcconn) : bool :=
  match dc_ph c with DCMain h => match c_want h with WantCcs => true | _ => false end | _ => false end.
Definition dc_live (c : dcconn) : bool :=
  negb (dc_fail c) && match dc_ph c with DCMain h => match c_want h with WantNone => false | _ => true end | _ => true end.
Definition ds_wants_ccs (c : dsconn) : bool :=
  match ds_ph c with DSMain h => match s_want h with WantCcs => true | _ => false end | _ => false end.
Definition ds_live (c : dsconn) : bool :=
  negb (ds_fail c) && match ds_ph c with DSMain h => match s_want h with WantNone => false | _ => true end | _ => true end.

(* records handed to the server (indices into c2s) and to the client (indices into s2c) *)
Definition d_trace_verdict (b : dbase) (c2s s2c : list Mitm.bytes) (to_s to_c : list N) : bool * bool :=
  let '(fc, fs) := d_honest_fins b in
  let pick (recs : list Mitm.bytes) (i : N) := parse_drec (nth (N.to_nat i) recs []) in
  let '(cf, _, _) := fold_left (d_rx dcconn (dc_step KD (dbase_c b)) dc_wants_ccs dc_live dc_pend fs)
                               (map (pick s2c) to_c) (dc_init (dbase_c b), 0, []) in
  let '(sf, _, _) := fold_left (d_rx dsconn (ds_step KD (dbase_s b)) ds_wants_ccs ds_live ds_pend fc)
                               (map (pick c2s) to_s) (ds_init, 0, []) in
  (dc_done cf, ds_done sf).
