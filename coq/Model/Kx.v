(* Key-exchange body parsers of tlcp/key_agreement.go (the file is shared, modulo error texts, by
   dtlcp/key_agreement.go): ECC and ECDHE processClientKeyExchange / processServerKeyExchange,
   getECDHEPublicKey, generateClientKeyExchange.

   Byte-faithful: every Go index / slice expression is an explicit [idx] / [from] / [sub] of
   Model/Codec.v, which yields [Panic site] when out of range; a nil dereference is a [Panic]
   as well.  A Go [error] return is [Ok (Fail code)]:
     1  errClientKeyExchange / errServerKeyExchange (the sentinel "invalid ... message")
     2  "bad client key exchange ciphertext format"
     3  an error of the cryptographic library (decryption, point decoding, verification, agreement)
     4  unsupported key type (comma-ok type assertion failed, key not a Decrypter / Signer ...)
     5  "need 2 certificates"
   What the code delegates to gmsm (SM2 decryption / encryption, point validation, signature
   verification, the SM2 key agreement) is an oracle argument: the theorems quantify over every
   oracle.  No proofs in this file. *)
From V Require Export Model.Codec.
Open Scope N_scope.

Inductive kx (A : Type) : Type := Done (a : A) | Fail (code : N).
Arguments Done {A} a.
Arguments Fail {A} code.

Definition kdone {A} (a : A) : res (kx A) := Ok (Done a).
Definition kfail {A} (c : N) : res (kx A) := Ok (Fail c).
Definition kbind {A B} (r : res (kx A)) (f : A -> res (kx B)) : res (kx B) :=
  match r with
  | Ok (Done a) => f a
  | Ok (Fail c) => Ok (Fail c)
  | Reject => Reject
  | Panic s => Panic s
  end.
Notation "x <== e ;; k" := (kbind e (fun x => k)) (at level 61, e at next level, right associativity) : res_scope.
Notation "' ( x , y ) <== e ;; k" := (kbind e (fun xy => let '(x, y) := xy in k))
  (at level 61, x pattern, y pattern, e at next level, right associativity) : res_scope.
Open Scope res_scope.

(* int(a)<<8 | int(b) *)
Definition shl8_or (a b : N) : N := N.lor (N.shiftl a 8) b.

(* public-key kinds of a certificate: *ecdsa.PublicKey on the SM2 curve, *ecdsa.PublicKey on
   another curve, *rsa.PublicKey, anything else (ed25519 ...) *)
Inductive keykind := KSm2 | KEcOther | KRsa | KOtherKey.
Definition is_ecdsa (k : keykind) : bool :=
  match k with KSm2 | KEcOther => true | _ => false end.

(* certs[i] on a Go slice of parsed certificates *)
Definition cert_at (certs : list keykind) (i : nat) (site : nat) : res keykind :=
  match nth_error certs i with Some k => Ok k | None => Panic site end.

(* ---------------------------------------------------------------------------------------- *)
(* ECC processClientKeyExchange (server).                                                    *)
(* first part: everything up to the bytes handed to Decrypt *)
Definition ecc_ckx_cipher (no_certs : bool) (ct : bytes) : res (kx bytes) :=
  if no_certs then kfail 5 else
  if len ct <? 2 then kfail 1 else
  b0 <-- idx ct 0 1 ;;
  b1 <-- idx ct 1 2 ;;
  let size := shl8_or b0 b1 in
  if negb (2 + size =? len ct) then kfail 1 else
  cipher <-- from ct 2 3 ;;
  if len cipher <? 3 then kfail 1 else
  c0 <-- idx cipher 0 4 ;;
  if negb (c0 =? 48) then kfail 2 else
  c2 <-- idx cipher 2 5 ;;
  let length := 3 + c2 in
  if length <=? len cipher then (c <-- sub cipher 0 length 6 ;; kdone c) else kdone cipher.

(* second part: the private key must be a crypto.Decrypter, the plaintext 48 bytes *)
Definition ecc_ckx_finish (is_decrypter : bool) (decrypt : bytes -> option bytes) (cipher : bytes) : res (kx bytes) :=
  if negb is_decrypter then kfail 4 else
  match decrypt cipher with
  | None => kfail 3
  | Some plain => if len plain =? 48 then kdone plain else kfail 1
  end.

Definition ecc_process_ckx (no_certs is_decrypter : bool) (decrypt : bytes -> option bytes) (ct : bytes) : res (kx bytes) :=
  c <== ecc_ckx_cipher no_certs ct ;; ecc_ckx_finish is_decrypter decrypt c.

(* the code before fix F2 (0a9f9f9): only len == 0 was refused *)
Definition ecc_ckx_cipher_F2 (ct : bytes) : res (kx bytes) :=
  if len ct =? 0 then kfail 1 else
  b0 <-- idx ct 0 1 ;;
  b1 <-- idx ct 1 2 ;;
  let size := shl8_or b0 b1 in
  if negb (2 + size =? len ct) then kfail 1 else
  cipher <-- from ct 2 3 ;;
  c0 <-- idx cipher 0 4 ;;
  if negb (c0 =? 48) then kfail 2 else
  c2 <-- idx cipher 2 5 ;;
  let length := 3 + c2 in
  if length <=? len cipher then (c <-- sub cipher 0 length 6 ;; kdone c) else kdone cipher.

(* ---------------------------------------------------------------------------------------- *)
(* getECDHEPublicKey: the bytes handed to ecdh.P256().NewPublicKey *)
Definition ecdhe_pub_from (ct : bytes) (start : N) (s1 s2 : nat) : res (kx bytes) :=
  pl <-- idx ct start s1 ;;
  rest <-- from ct (start + 1) s2 ;;
  if negb (pl =? len rest) then kfail 1 else kdone rest.

Definition get_ecdhe_point (ct : bytes) : res (kx bytes) :=
  if len ct =? 69 then ecdhe_pub_from ct 3 10 11
  else if len ct =? 71 then
    b0 <-- idx ct 0 12 ;;
    b1 <-- idx ct 1 13 ;;
    if negb (2 + shl8_or b0 b1 =? len ct) then kfail 1 else ecdhe_pub_from ct 5 14 15
  else kfail 1.

Definition get_ecdhe_pub (point_ok : bytes -> bool) (ct : bytes) : res (kx bytes) :=
  p <== get_ecdhe_point ct ;; if point_ok p then kdone p else kfail 3.

(* ECDHE processClientKeyExchange (server): certs = the client's certificates *)
Definition ecdhe_process_ckx (certs : list keykind) (to_ecdh_ok : keykind -> bool) (point_ok : bytes -> bool)
           (agree : bytes -> option bytes) (ct : bytes) : res (kx bytes) :=
  if (length certs <? 2)%nat then kfail 5 else
  k <-- cert_at certs 1 20 ;;
  if negb (is_ecdsa k) then kfail 4 else
  if negb (to_ecdh_ok k) then kfail 3 else
  p <== get_ecdhe_pub point_ok ct ;;
  match agree p with Some pre => kdone pre | None => kfail 3 end.

(* ---------------------------------------------------------------------------------------- *)
(* ECC processServerKeyExchange (client): Done sig = the signature bytes that were verified *)
Definition ecc_process_skx (certs : list keykind) (verify : keykind -> bytes -> bool) (key : bytes) : res (kx bytes) :=
  if (length certs <? 2)%nat then kfail 5 else
  sigk <-- cert_at certs 0 30 ;;
  _enc <-- cert_at certs 1 31 ;;
  if len key <=? 2 then kfail 1 else
  b0 <-- idx key 0 32 ;;
  b1 <-- idx key 1 33 ;;
  if negb (shl8_or b0 b1 + 2 =? len key) then kfail 1 else
  sg <-- from key 2 34 ;;
  if negb (is_ecdsa sigk) then kfail 4 else
  if verify sigk sg then kdone sg else kfail 3.

(* ECDHE processServerKeyExchange (client): Done (params, sig) = the ServerECDHParams that were
   signed and recorded (the point is params[4:]) and the signature bytes that were verified *)
Definition ecdhe_skx_point (certs : list keykind) (key : bytes) : res (kx (bytes * N)) :=
  if (length certs <? 2)%nat then kfail 5 else
  _sig <-- cert_at certs 0 40 ;;
  if len key <? 4 then kfail 1 else
  pl <-- idx key 3 41 ;;
  if len key <? pl + 4 then kfail 1 else
  params <-- sub key 0 (4 + pl) 42 ;;
  kdone (params, pl).

Definition ecdhe_skx_sig (key : bytes) (pl : N) : res (kx bytes) :=
  sp <-- from key (4 + pl) 44 ;;
  if len sp <? 2 then kfail 1 else
  s0 <-- idx sp 0 45 ;;
  s1 <-- idx sp 1 46 ;;
  if len sp <? shl8_or s0 s1 + 2 then kfail 1 else
  sg <-- from sp 2 47 ;;
  kdone sg.

Definition ecdhe_process_skx (certs : list keykind) (point_ok : bytes -> bool)
           (verify : keykind -> bytes -> bytes -> bool) (key : bytes) : res (kx (bytes * bytes)) :=
  '(params, pl) <== ecdhe_skx_point certs key ;;
  pt <-- from params 4 43 ;;
  if negb (point_ok pt) then kfail 3 else
  sg <== ecdhe_skx_sig key pl ;;
  sigk <-- cert_at certs 0 48 ;;
  if negb (is_ecdsa sigk) then kfail 4 else
  if verify sigk params sg then kdone (params, sg) else kfail 3.

(* the code before fix F3 (79d7636): signedParams[0], [1] read without a length check *)
Definition ecdhe_skx_sig_F3 (key : bytes) (pl : N) : res (kx bytes) :=
  sp <-- from key (4 + pl) 44 ;;
  s0 <-- idx sp 0 45 ;;
  s1 <-- idx sp 1 46 ;;
  if len sp <? shl8_or s0 s1 + 2 then kfail 1 else
  sg <-- from sp 2 47 ;;
  kdone sg.

(* ---------------------------------------------------------------------------------------- *)
(* generateClientKeyExchange (client).  ECC: encrypt the pre-master secret under the server's
   encryption certificate. *)
Definition ecc_generate_ckx (certs : list keykind) (encrypt : keykind -> option bytes) : res (kx bytes) :=
  if (length certs <? 2)%nat then kfail 5 else
  k <-- cert_at certs 1 50 ;;
  if negb (is_ecdsa k) then kfail 4 else
  match encrypt k with
  | None => kfail 3
  | Some e => kdone (u16 (len e) ++ e)
  end.

(* before fix F4 (f1da0e7): encCert.PublicKey.( *ecdsa.PublicKey ) without the comma-ok form *)
Definition ecc_generate_ckx_F4 (certs : list keykind) (encrypt : keykind -> option bytes) : res (kx bytes) :=
  if (length certs <? 2)%nat then kfail 5 else
  k <-- cert_at certs 1 50 ;;
  if negb (is_ecdsa k) then Panic 51 else
  match encrypt k with
  | None => kfail 3
  | Some e => kdone (u16 (len e) ++ e)
  end.

(* ECDHE: the client's own encryption key pair (None: no CertificateRequest was received, or no
   encryption certificate configured); own_kind = its private key supports the SM2 agreement *)
Definition ecdhe_generate_ckx (peer_tmp : option bytes) (own_enc : option bool) (certs : list keykind)
           (to_ecdh_ok : keykind -> bool) (agree : bytes -> option bytes) (as_vector : bool) : res (kx bytes) :=
  match peer_tmp with
  | None => kfail 1
  | Some tmp =>
      match own_enc with
      | None => kfail 4                      (* hs.encCert == nil *)
      | Some supports =>
          if negb supports then kfail 4 else
          k <-- cert_at certs 1 60 ;;
          if negb (is_ecdsa k) then kfail 4 else
          if negb (to_ecdh_ok k) then kfail 3 else
          match agree tmp with
          | None => kfail 3
          | Some pub =>
              let params := [3; 0; 41; len pub mod 256] ++ pub in
              kdone (if as_vector then u16 (len params) ++ params else params)
          end
      end
  end.

(* before fix F4: hs.encCert.PrivateKey dereferenced without the nil check *)
Definition ecdhe_generate_ckx_F4 (peer_tmp : option bytes) (own_enc : option bool) (certs : list keykind)
           (to_ecdh_ok : keykind -> bool) (agree : bytes -> option bytes) (as_vector : bool) : res (kx bytes) :=
  match peer_tmp with
  | None => kfail 1
  | Some tmp =>
      match own_enc with
      | None => Panic 61
      | Some supports =>
          if negb supports then kfail 4 else
          k <-- cert_at certs 1 60 ;;
          if negb (is_ecdsa k) then kfail 4 else
          if negb (to_ecdh_ok k) then kfail 3 else
          match agree tmp with
          | None => kfail 3
          | Some pub =>
              let params := [3; 0; 41; len pub mod 256] ++ pub in
              kdone (if as_vector then u16 (len params) ++ params else params)
          end
      end
  end.

(* the client's key exchange as the handshake runs it: processServerKeyExchange, whose success
   is what sets peerTmpKey, then generateClientKeyExchange on the same certificate list *)
Definition ecdhe_client_kx (certs : list keykind) (point_ok : bytes -> bool) (verify : keykind -> bytes -> bytes -> bool)
           (own_enc : option bool) (to_ecdh_ok : keykind -> bool) (agree : bytes -> option bytes) (as_vector : bool)
           (skx : bytes) : res (kx bytes) :=
  '(params, _sg) <== ecdhe_process_skx certs point_ok verify skx ;;
  pt <-- from params 4 62 ;;
  ecdhe_generate_ckx (Some pt) own_enc certs to_ecdh_ok agree as_vector.

Definition ecc_client_kx (certs : list keykind) (verify : keykind -> bytes -> bool) (encrypt : keykind -> option bytes)
           (skx : bytes) : res (kx bytes) :=
  _sg <== ecc_process_skx certs verify skx ;; ecc_generate_ckx certs encrypt.

(* ---------------------------------------------------------------------------------------- *)
(* Certificate-list handling around the parsers: the index / slice expressions applied to the
   peer's certificate list (processCertsFromClient, verifyServerCertificate).  n = number of
   certificates in the peer's message (each already parsed), kinds = their key kinds. *)
(* server: processCertsFromClient *)
Definition server_certs (kinds : list keykind) (require_cert is_ecdhe verify_policy : bool)
           (chain_ok : nat -> bool) : res (kx unit) :=
  let n := length kinds in
  if (n =? 0)%nat && require_cert then kfail 5 else
  if (n <? 2)%nat && is_ecdhe then kfail 5 else
  r <== (if verify_policy && (0 <? n)%nat then
           let start := if is_ecdhe then 2%nat else 1%nat in
           if (n <? start)%nat then Panic 70 else            (* certs[start:] *)
           _c0 <-- cert_at kinds 0 71 ;;
           if negb (chain_ok 0%nat) then kfail 3 else
           if is_ecdhe then (_c1 <-- cert_at kinds 1 72 ;; if chain_ok 1%nat then kdone tt else kfail 3)
           else kdone tt
         else kdone tt) ;;
  if (0 <? n)%nat then
    k0 <-- cert_at kinds 0 73 ;;
    if negb (is_ecdsa k0 || match k0 with KRsa => true | _ => false end) then kfail 4 else
    if is_ecdhe then
      k1 <-- cert_at kinds 1 74 ;;
      if negb (is_ecdsa k1 || match k1 with KRsa => true | _ => false end) then kfail 4 else kdone tt
    else kdone tt
  else kdone tt.

(* client: verifyServerCertificate *)
Definition client_certs (kinds : list keykind) (insecure : bool) (chain_ok : nat -> bool) : res (kx unit) :=
  let n := length kinds in
  if (n <? 2)%nat then kfail 5 else
  r <== (if insecure then kdone tt else
           if (n <? 2)%nat then Panic 80 else                 (* certs[2:] *)
           _c0 <-- cert_at kinds 0 81 ;;
           if negb (chain_ok 0%nat) then kfail 3 else
           _c1 <-- cert_at kinds 1 82 ;;
           if chain_ok 1%nat then kdone tt else kfail 3) ;;
  k0 <-- cert_at kinds 0 83 ;;
  if is_ecdsa k0 || match k0 with KRsa => true | _ => false end then kdone tt else kfail 4.
