(* Message-order model of the DTLCP (datagram stack) handshake state machines:
     client : dtlcp/handshake_client.go clientHandshake (cookie loop) / handshake / doFullHandshake / readFinished
     server : dtlcp/handshake_server.go serverHandshake (cookie loop), readNextClientHello,
              doFullHandshake with readNextFlightMsg (a ClientHello arriving while the client's
              flight is awaited is taken as a retransmission: the server flight is re-sent and
              reading continues), readFinished
     record : dtlcp/conn.go readRecordOrCCS: until the protocol version is fixed (client: by
              the ServerHello; server: by the first ClientHello) a record that is neither a
              handshake record nor an alert is fatal ("first record does not look like a TLCP
              handshake"); records of another epoch and replayed sequence
              numbers are dropped silently; a ChangeCipherSpec that cannot be processed yet is
              dropped (deferred when handshake bytes are pending); a handshake record arriving
              while the ChangeCipherSpec is awaited is a retransmission of the peer's previous
              flight and is dropped (it still resets the ignored-record count).
   One event = one datagram carrying one record.  Same conventions as Model/Handshake.v;
   ClientHello events carry a third bit: the cookie is valid for this hello. *)
From V Require Export Model.Handshake.

Inductive dev :=
| DHs (k : hs_kind) (ok aux : bool)
| DHello (ok aux cookie : bool)   (* ClientHello: contents ok / offers a resumable session / carries a valid cookie *)
| DVerify                          (* HelloVerifyRequest *)
| DFrag | DCcs | DWarn | DApp | DEnd
| DOld.                            (* a record of an older epoch or with a replayed sequence number *)

(* ------------------------------------------------------------------ client *)
Inductive dcstate :=
| DC_Hello (have_cookie : bool)    (* cookie loop: waiting for HelloVerifyRequest or ServerHello *)
| DC_Main (s : cstate).            (* from ServerHello on: as the stream client *)

Record dcconf := mkDC { dc_st : dcstate; dc_retry : nat; dc_pend : bool }.
Definition dcerr : dcconf := mkDC (DC_Main C_Err) 0 false.

Definition dcstep (p : cparams) (c : dcconf) (e : dev) : dcconf :=
  match dc_st c with
  | DC_Main C_Done | DC_Main C_Err => c
  | DC_Hello hc =>
      match e with
      | DOld => c
      | DEnd | DApp => dcerr
      | DCcs => dcerr                                 (* haveVers is still false: only handshake records and alerts are tolerated *)
      | DWarn => if Nat.ltb max_useless (S (dc_retry c)) then dcerr
                 else mkDC (DC_Hello hc) (S (dc_retry c)) (dc_pend c)
      | DFrag => mkDC (DC_Hello hc) 0 true
      | DVerify => if dc_pend c then mkDC (DC_Hello hc) 0 true
                   else mkDC (DC_Hello true) 0 false  (* first: remember the cookie; later: re-send the hello *)
      | DHello _ _ _ => if dc_pend c then mkDC (DC_Hello hc) 0 true else dcerr
      | DHs k ok aux =>
          if dc_pend c then mkDC (DC_Hello hc) 0 true
          else match k with
               | ServerHello =>
                   let c' := cstep p (mkCC C_SH 0 false) (EHs ServerHello ok aux) in
                   mkDC (DC_Main (c_st c')) (c_retry c') (c_pend c')
               | _ => dcerr
               end
      end
  | DC_Main s =>
      let back (c' : cconf) := mkDC (DC_Main (c_st c')) (c_retry c') (c_pend c') in
      let cur := mkCC s (dc_retry c) (dc_pend c) in
      match e with
      | DOld => c
      | DHs k ok aux => if expects_ccs s then mkDC (DC_Main s) 0 (dc_pend c)      (* retransmission: dropped *)
                        else back (cstep p cur (EHs k ok aux))
      | DHello _ _ _ => if expects_ccs s then mkDC (DC_Main s) 0 (dc_pend c)
                        else back (cstep p cur (EHs ClientHello true false))   (* a foreign message for a client *)
      | DVerify => if expects_ccs s then mkDC (DC_Main s) 0 (dc_pend c)
                   else if dc_pend c then mkDC (DC_Main s) 0 true else dcerr
      | DFrag => if expects_ccs s then mkDC (DC_Main s) 0 (dc_pend c) else back (cstep p cur EFrag)
      | DCcs => if expects_ccs s then back (cstep p cur ECcs) else c
      | DWarn => back (cstep p cur EWarn)
      | DApp => back (cstep p cur EApp)
      | DEnd => back (cstep p cur EEnd)
      end
  end.

Definition dcrun (p : cparams) (es : list dev) : dcconf :=
  fold_left (dcstep p) es (mkDC (DC_Hello false) 0 false).
Definition dcaccepts (p : cparams) (es : list dev) : bool :=
  match dc_st (dcrun p es) with DC_Main C_Done => true | _ => false end.

(* ------------------------------------------------------------------ server *)
Inductive dsstate :=
| DS_Hello (first : bool)          (* waiting for a ClientHello (first: none seen yet) *)
| DS_Main (s : sstate).

Record dsconf := mkDS { ds_st : dsstate; ds_retry : nat; ds_pend : bool }.
Definition dserr : dsconf := mkDS (DS_Main S_Err) 0 false.

(* states in which the server is reading the client's flight through readNextFlightMsg *)
Definition in_flight5 (s : sstate) : bool :=
  match s with S_Cert | S_CKX _ | S_CV => true | _ => false end.

Definition dsstep (p : sparams) (c : dsconf) (e : dev) : dsconf :=
  match ds_st c with
  | DS_Main S_Done | DS_Main S_Err => c
  | DS_Hello first =>
      match e with
      | DOld => c
      | DEnd | DApp => dserr
      | DCcs => if first then dserr else c            (* before any ClientHello: fatal; afterwards: dropped *)
      | DWarn => if Nat.ltb max_useless (S (ds_retry c)) then dserr
                 else mkDS (DS_Hello first) (S (ds_retry c)) (ds_pend c)
      | DFrag => mkDS (DS_Hello first) 0 true
      | DVerify => if ds_pend c then mkDS (DS_Hello first) 0 true else dserr
      | DHs _ _ _ => if ds_pend c then mkDS (DS_Hello first) 0 true else dserr
      | DHello ok aux cookie =>
          if ds_pend c then mkDS (DS_Hello first) 0 true
          else if negb cookie then mkDS (DS_Hello false) 0 false          (* answered by a HelloVerifyRequest *)
          else
            let c' := sstep p (mkSC S_CH 0 false) (EHs ClientHello ok aux) in
            mkDS (DS_Main (s_st c')) (s_retry c') (s_pend c')
      end
  | DS_Main s =>
      let back (c' : sconf) := mkDS (DS_Main (s_st c')) (s_retry c') (s_pend c') in
      let cur := mkSC s (ds_retry c) (ds_pend c) in
      match e with
      | DOld => c
      | DHs k ok aux => if s_expects_ccs s then mkDS (DS_Main s) 0 (ds_pend c)
                        else back (sstep p cur (EHs k ok aux))
      | DHello _ _ _ =>
          if s_expects_ccs s then mkDS (DS_Main s) 0 (ds_pend c)
          else if ds_pend c then mkDS (DS_Main s) 0 true
          else if in_flight5 s then mkDS (DS_Main s) 0 false              (* retransmission: flight re-sent *)
          else back (sstep p cur (EHs ClientHello true false))
      | DVerify => if s_expects_ccs s then mkDS (DS_Main s) 0 (ds_pend c)
                   else if ds_pend c then mkDS (DS_Main s) 0 true else dserr
      | DFrag => if s_expects_ccs s then mkDS (DS_Main s) 0 (ds_pend c) else back (sstep p cur EFrag)
      | DCcs => if s_expects_ccs s then back (sstep p cur ECcs) else c
      | DWarn => back (sstep p cur EWarn)
      | DApp => back (sstep p cur EApp)
      | DEnd => back (sstep p cur EEnd)
      end
  end.

Definition dsrun (p : sparams) (es : list dev) : dsconf :=
  fold_left (dsstep p) es (mkDS (DS_Hello true) 0 false).
Definition dsaccepts (p : sparams) (es : list dev) : bool :=
  match ds_st (dsrun p es) with DS_Main S_Done => true | _ => false end.

(* ------------------------------------------------------------------ the datagram language *)
(* A legal datagram flow is a legal stream flow (Model/Handshake.v client_flows / server_flows)
   in which, additionally,
   - dropped records (DOld) may appear anywhere; so may, once the peer's hello has been read, a
     ChangeCipherSpec that is not yet expected, and handshake records while the ChangeCipherSpec is awaited (retransmissions of
     the peer's previous flight: dropped, but they restart the warning budget),
   - client side: HelloVerifyRequests may precede the ServerHello (each restarts the warning budget),
   - server side: cookieless / stale-cookie ClientHellos (each answered by a HelloVerifyRequest)
     may precede the ClientHello that carries a valid cookie, and retransmitted ClientHellos may
     appear while the next expected message is Certificate, ClientKeyExchange or CertificateVerify. *)
Fixpoint drealises_c (budget : nat) (started : bool) (its : list item) (es : list dev) : bool :=
  match es with
  | [] => match its with [] => true | _ => false end
  | e :: rest =>
      match its with
      | [] => true
      | it :: its' =>
          match e with
          | DOld => drealises_c budget started its rest
          | DWarn => match budget with O => false | S b => drealises_c b started its rest end
          | DVerify => match it with
                       | ICcs => drealises_c max_useless started its rest
                       | _ => if started then false else drealises_c max_useless false its rest
                       end
          | DCcs => match it with ICcs => drealises_c budget started its' rest | _ => started && drealises_c budget started its rest end
          | DHs k ok aux =>
              match it with
              | IHs k' aux' =>
                  hs_eqb k k' && ok && (negb (aux_matters_c k) || Bool.eqb aux aux') &&
                  drealises_c max_useless true its' rest
              | ICcs => drealises_c max_useless started its rest
              end
          | DHello _ _ _ | DFrag => match it with ICcs => drealises_c max_useless started its rest | _ => false end
          | _ => false
          end
      end
  end.

Definition dclegal (p : cparams) (es : list dev) : bool :=
  existsb (fun f => drealises_c max_useless false f es) (client_flows p).

Definition awaits_flight5 (its : list item) : bool :=
  match its with
  | IHs Certificate _ :: _ | IHs ClientKeyExchange _ :: _ | IHs CertificateVerify _ :: _ => true
  | _ => false
  end.

Fixpoint drealises_s (budget : nat) (seen started : bool) (its : list item) (es : list dev) : bool :=
  match es with
  | [] => match its with [] => true | _ => false end
  | e :: rest =>
      match its with
      | [] => true
      | it :: its' =>
          match e with
          | DOld => drealises_s budget seen started its rest
          | DWarn => match budget with O => false | S b => drealises_s b seen started its rest end
          | DCcs => match it with ICcs => drealises_s budget seen started its' rest | _ => seen && drealises_s budget seen started its rest end
          | DVerify | DFrag => match it with ICcs => drealises_s max_useless seen started its rest | _ => false end
          | DHello ok aux cookie =>
              if started then
                (if awaits_flight5 its then drealises_s max_useless true true its rest
                 else match it with ICcs => drealises_s max_useless true true its rest | _ => false end)
              else if negb cookie then drealises_s max_useless true false its rest
              else match it with
                   | IHs ClientHello aux' => ok && Bool.eqb aux aux' && drealises_s max_useless true true its' rest
                   | _ => false
                   end
          | DHs k ok aux =>
              match it with
              | IHs k' aux' =>
                  started && negb (hs_eqb k ClientHello) &&
                  hs_eqb k k' && ok && (negb (aux_matters_s k) || Bool.eqb aux aux') &&
                  drealises_s max_useless true true its' rest
              | ICcs => drealises_s max_useless seen started its rest
              end
          | _ => false
          end
      end
  end.

Definition dslegal (p : sparams) (es : list dev) : bool :=
  existsb (fun f => drealises_s max_useless false false f es) (server_flows p).

(* ------------------------------------------------------------------ relation to the stream automaton *)
(* the stream event a datagram event stands for when the endpoint consumes it *)
Definition to_ev (e : dev) : ev :=
  match e with
  | DHs k ok aux => EHs k ok aux
  | DHello ok aux _ => EHs ClientHello ok aux
  | DCcs => ECcs
  | DWarn => EWarn
  | DFrag => EFrag
  | DApp => EApp
  | DVerify | DEnd | DOld => EEnd
  end.

Inductive sublist {A : Type} : list A -> list A -> Prop :=
| sub_nil : sublist [] []
| sub_skip : forall x l1 l2, sublist l1 l2 -> sublist l1 (x :: l2)
| sub_take : forall x l1 l2, sublist l1 l2 -> sublist (x :: l1) (x :: l2).
