(* Negotiation between two unmodified endpoints over a reliable transport (both stacks):
     client offer     : makeClientHello (preference order ∩ configured suites; ECDHE only with both
                        client key pairs)                          tlcp|dtlcp/handshake_client.go
     server choice    : pickCipherSuite / cipherSuiteOk / selectCipherSuite, cipherSuitesPreferenceOrder
                                                                   handshake_server.go, cipher_suites.go
     client check     : pickCipherSuite (suite must have been offered), compression, checkALPN
     ALPN             : negotiateALPN
     versions         : supportedVersions / supportedVersionsFromMax / mutualVersion (only 0x0101)
     client auth      : certificate request, getClientCertificate / SupportsCertificate,
                        processCertsFromClient (Model/Auth.v)
   X.509 verdicts are oracle inputs computed by the harness. Suites, versions and protocol names
   are numbers (N); application protocols: 1 = "h2", 2 = "http/1.1", others arbitrary. *)
From Coq Require Export NArith List Bool Arith.
From V Require Export Model.Auth.
Export ListNotations.
Open Scope N_scope.

Definition ECC_GCM : N := 57427.    (* 0xe053 *)
Definition ECC_CBC : N := 57363.    (* 0xe013 *)
Definition ECDHE_GCM : N := 57425.  (* 0xe051 *)
Definition ECDHE_CBC : N := 57361.  (* 0xe011 *)
Definition preference : list N := [ECC_GCM; ECC_CBC; ECDHE_GCM; ECDHE_CBC].
Definition is_ecdhe (s : N) : bool := (s =? ECDHE_GCM) || (s =? ECDHE_CBC).
Definition VERS : N := 257.         (* 0x0101 *)

Definition memN (x : N) (l : list N) : bool := existsb (N.eqb x) l.

Record ccfg := mkC {
  c_suites : option (list N);   (* Config.CipherSuites; None = default *)
  c_has_sig : bool;             (* a signing key pair is configured *)
  c_has_enc : bool;             (* an encryption key pair is configured (second certificate) *)
  c_alpn : list N;
  c_insecure : bool;
  c_min : N; c_max : N;         (* 0 = unset *)
  (* oracle verdicts about this pair *)
  c_srv_chain_ok : bool;        (* the server's two certificates pass chain/validity/name under the client's roots *)
  c_cert_acceptable : bool      (* the client's certificates are issued by a CA the server names (or it names none) *)
}.

Record scfg := mkS {
  s_suites : option (list N);
  s_has_keys : bool;            (* SM2 signing and encryption key pairs are configured *)
  s_policy : policy;
  s_alpn : list N;
  s_min : N; s_max : N;
  s_cli_chain_ok : bool;        (* oracle: the client's signing certificate verifies under the policy's options *)
  s_cli_enc_chain_ok : bool     (* oracle: the client's encryption certificate verifies (ECDHE) *)
}.

Definition cfg_suites (o : option (list N)) : list N := match o with Some l => l | None => preference end.

(* ---- versions: only 0x0101 exists *)
Definition vers_supported (mn mx : N) : bool :=
  negb ((negb (mn =? 0)) && (VERS <? mn)) && negb ((negb (mx =? 0)) && (mx <? VERS)).

(* ---- client offer *)
Definition client_offer (c : ccfg) : list N :=
  filter (fun id => memN id (cfg_suites (c_suites c)) &&
                    (negb (is_ecdhe id) || (c_has_sig c && c_has_enc c))) preference.

(* ---- server choice *)
Definition server_pick (s : scfg) (offer : list N) : option N :=
  find (fun id => memN id (cfg_suites (s_suites s)) && s_has_keys s && memN id offer) preference.

(* ---- ALPN: Some p = agreed (0 = none), None = failure *)
Definition H2 : N := 1.
Definition HTTP11 : N := 2.
Definition alpn_pick (srv cli : list N) : option N :=
  match srv, cli with
  | [], _ | _, [] => Some 0
  | _, _ =>
      match find (fun sp => memN sp cli) srv with
      | Some p => Some p
      | None => if memN H2 srv && memN HTTP11 cli then Some 0 else None
      end
  end.
(* protocol names are non-zero; 0 stands for "no protocol" *)

(* ---- client certificates actually sent (given a request) *)
Definition client_sends (c : ccfg) : nat :=
  if c_has_sig c && c_cert_acceptable c then (if c_has_enc c then 2 else 1)%nat
  else 0%nat.
(* an encryption certificate alone is sent when only it is acceptable; the harness keeps both
   certificates under one issuer so acceptability is one bit *)

Record outcome := mkO { o_suite : N; o_alpn : N; o_client_certs_at_server : nat; o_verified_chains : bool }.

Definition honest_run (c : ccfg) (s : scfg) : option outcome :=
  if negb (vers_supported (c_min c) (c_max c) && vers_supported (s_min s) (s_max s)) then None else
  match alpn_pick (s_alpn s) (c_alpn c) with
  | None => None
  | Some proto =>
      if negb (s_has_keys s) then None else
      match server_pick s (client_offer c) with
      | None => None
      | Some suite =>
          (* the client checks the server *)
          if negb (c_insecure c || c_srv_chain_ok c) then None else
          let ecdhe := is_ecdhe suite in
          if requests_cert (s_policy s) ecdhe then
            let n := client_sends c in
            (* ECDHE: the client needs its encryption key pair to answer (it offered ECDHE only with both) *)
            let v := mkCV true n true (s_cli_chain_ok s) (s_cli_enc_chain_ok s) true true
                          (negb (Nat.eqb n 0)) true true in
            if server_full_accepts (s_policy s) ecdhe v
            then Some (mkO suite proto n (verified_chains_nonempty (s_policy s) ecdhe v))
            else None
          else Some (mkO suite proto 0 false)
      end
  end.

(* ---- the declarative notion of compatibility *)
Definition common_suite (c : ccfg) (s : scfg) : option N :=
  find (fun id => memN id (cfg_suites (c_suites c)) && memN id (cfg_suites (s_suites s)) &&
                  (negb (is_ecdhe id) || (c_has_sig c && c_has_enc c)) && s_has_keys s) preference.

Definition compatible (c : ccfg) (s : scfg) : bool :=
  vers_supported (c_min c) (c_max c) && vers_supported (s_min s) (s_max s) &&
  match alpn_pick (s_alpn s) (c_alpn c) with None => false | Some _ => true end &&
  s_has_keys s &&
  match common_suite c s with
  | None => false
  | Some suite =>
      (c_insecure c || c_srv_chain_ok c) &&
      (if requests_cert (s_policy s) (is_ecdhe suite) then
         let n := client_sends c in
         policy_allows (s_policy s) n (s_cli_chain_ok s) &&
         (negb (is_ecdhe suite) || (Nat.leb 2 n && (negb (verifies_cert (s_policy s)) || s_cli_enc_chain_ok s)))
       else true)
  end.
