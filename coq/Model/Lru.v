(* Model of tlcp/session.go + dtlcp/session.go : lruSessionCache (Put / Get).
   Hand-written; tied to the Go code by the correspondence check Corr/Run_C11.v.

   Keys are N (the harness maps Go strings to numbers; 0 is the empty string "").
   Values are N (identity of the stored session; the harness stores it in the
   session id / master secret).  A stored nil is "delete".                     *)
From Coq Require Export List NArith Arith Lia Bool.
Export ListNotations.
Open Scope N_scope.

Definition key := N.
Definition val := N.

(* ---- concrete model: MRU-first list, exactly the container/list discipline ---- *)
Record lru := mkLru { cap : nat; ents : list (key * val) }.

Definition lru_init (c : nat) : lru := mkLru (if Nat.ltb c 1 then 64 else c) [].

Fixpoint lookup (k : key) (l : list (key * val)) : option val :=
  match l with
  | [] => None
  | (k', v) :: t => if k =? k' then Some v else lookup k t
  end.

Fixpoint remove_key (k : key) (l : list (key * val)) : list (key * val) :=
  match l with
  | [] => []
  | (k', v) :: t => if k =? k' then remove_key k t else (k', v) :: remove_key k t
  end.

Inductive op :=
| Put (k : key) (v : val)     (* Put(k, non-nil session v) *)
| Del (k : key)               (* Put(k, nil)               *)
| Get (k : key).

(* result of an operation: None for Put/Del and for a miss; Some v for a hit *)
Definition put (c : lru) (k : key) (v : val) : lru :=
  match lookup k (ents c) with
  | Some _ => mkLru (cap c) ((k, v) :: remove_key k (ents c))
  | None =>
      if Nat.ltb (length (ents c)) (cap c)
      then mkLru (cap c) ((k, v) :: ents c)
      else mkLru (cap c) ((k, v) :: removelast (ents c))
  end.

Definition del (c : lru) (k : key) : lru := mkLru (cap c) (remove_key k (ents c)).

Definition get (c : lru) (k : key) : lru * option val :=
  if k =? 0 then
    (c, match ents c with [] => None | (_, v) :: _ => Some v end)
  else
    match lookup k (ents c) with
    | Some v => (mkLru (cap c) ((k, v) :: remove_key k (ents c)), Some v)
    | None => (c, None)
    end.

Definition step (c : lru) (o : op) : lru * option val :=
  match o with
  | Put k v => (put c k v, None)
  | Del k => (del c k, None)
  | Get k => get c k
  end.

Fixpoint run (c : lru) (os : list op) : lru * list (option val) :=
  match os with
  | [] => (c, [])
  | o :: t => let '(c1, r) := step c o in
              let '(c2, rs) := run c1 t in (c2, r :: rs)
  end.

(* ---- abstract specification: a timestamped map; eviction removes the minimum
        time stamp (= least recently used).  Kept as an association list in no
        particular order so that nothing about recency is encoded in positions. ---- *)
Record spec := mkSpec { scap : nat; clock : N; smap : list (key * (val * N)) }.

Definition spec_init (c : nat) : spec := mkSpec (if Nat.ltb c 1 then 64 else c) 1 [].

Fixpoint slookup (k : key) (m : list (key * (val * N))) : option (val * N) :=
  match m with
  | [] => None
  | (k', e) :: t => if k =? k' then Some e else slookup k t
  end.

Fixpoint sremove (k : key) (m : list (key * (val * N))) : list (key * (val * N)) :=
  match m with
  | [] => []
  | (k', e) :: t => if k =? k' then sremove k t else (k', e) :: sremove k t
  end.

(* key with the smallest / largest stamp *)
Fixpoint min_stamp (m : list (key * (val * N))) : option (key * N) :=
  match m with
  | [] => None
  | (k, (_, t)) :: r =>
      match min_stamp r with
      | None => Some (k, t)
      | Some (k', t') => if t <? t' then Some (k, t) else Some (k', t')
      end
  end.

Fixpoint max_stamp (m : list (key * (val * N))) : option (key * (val * N)) :=
  match m with
  | [] => None
  | (k, (v, t)) :: r =>
      match max_stamp r with
      | None => Some (k, (v, t))
      | Some (k', (v', t')) => if t' <? t then Some (k, (v, t)) else Some (k', (v', t'))
      end
  end.

Definition sput (s : spec) (k : key) (v : val) : spec :=
  match slookup k (smap s) with
  | Some _ => mkSpec (scap s) (clock s + 1) ((k, (v, clock s)) :: sremove k (smap s))
  | None =>
      if Nat.ltb (length (smap s)) (scap s)
      then mkSpec (scap s) (clock s + 1) ((k, (v, clock s)) :: smap s)
      else match min_stamp (smap s) with
           | Some (kmin, _) =>
               mkSpec (scap s) (clock s + 1) ((k, (v, clock s)) :: sremove kmin (smap s))
           | None => mkSpec (scap s) (clock s + 1) [(k, (v, clock s))]
           end
  end.

Definition sdel (s : spec) (k : key) : spec := mkSpec (scap s) (clock s) (sremove k (smap s)).

Definition sget (s : spec) (k : key) : spec * option val :=
  if k =? 0 then
    (s, match max_stamp (smap s) with Some (_, (v, _)) => Some v | None => None end)
  else
    match slookup k (smap s) with
    | Some (v, _) =>
        (mkSpec (scap s) (clock s + 1) ((k, (v, clock s)) :: sremove k (smap s)), Some v)
    | None => (s, None)
    end.

Definition sstep (s : spec) (o : op) : spec * option val :=
  match o with
  | Put k v => (sput s k v, None)
  | Del k => (sdel s k, None)
  | Get k => sget s k
  end.

Fixpoint srun (s : spec) (os : list op) : spec * list (option val) :=
  match os with
  | [] => (s, [])
  | o :: t => let '(s1, r) := sstep s o in
              let '(s2, rs) := srun s1 t in (s2, r :: rs)
  end.
