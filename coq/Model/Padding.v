(* Model of extractPadding (tlcp/conn.go and dtlcp/conn.go, identical): the constant-time CBC
   padding check, line by line over N with the Go integer conversions made explicit
   (uint is 64 bits; int32(x) keeps the low 32 bits as a signed number; byte(x) the low 8).
   No proofs here; Proofs/C04Proofs.v shows it equal to the declarative check of
   Spec/RecordProt.v. *)
From Coq Require Export NArith Arith List.
Export ListNotations.
Open Scope N_scope.

Definition two64 : N := 18446744073709551616.
(* uint(a) - uint(b), wrapping *)
Definition sub64 (a b : N) : N := (a + two64 - b mod two64) mod two64.
(* ^t on a uint *)
Definition not64 (t : N) : N := two64 - 1 - t mod two64.
(* byte(int32(x) >> 31): low 32 bits read as signed, arithmetic shift leaves 0 or -1, byte(-1) = 255 *)
Definition sar31_byte (x : N) : N := if x mod 4294967296 <? 2147483648 then 0 else 255.
(* good &^= x on bytes *)
Definition andnot8 (g x : N) : N := N.land g (N.lxor (x mod 256) 255).
(* good << k on a byte *)
Definition shl8 (g k : N) : N := (N.shiftl g k) mod 256.
(* uint8(int8(good) >> 7) *)
Definition sar7_byte (g : N) : N := if g mod 256 <? 128 then 0 else 255.

(* the three folding steps and the final replication *)
Definition fold_good (g : N) : N :=
  let g := N.land g (shl8 g 4) in
  let g := N.land g (shl8 g 2) in
  let g := N.land g (shl8 g 1) in
  sar7_byte g.

(* one iteration of the loop over i *)
Definition pad_step (payload : list N) (padding_len : N) (good : N) (i : nat) : N :=
  let t := sub64 padding_len (N.of_nat i) in
  let mask := sar31_byte (not64 t) in
  let b := nth (length payload - 1 - i) payload 0 in
  andnot8 good (N.lxor (N.land mask padding_len) (N.land mask b)).

(* returns (toRemove, good) *)
Definition extract_padding (payload : list N) : N * N :=
  match payload with
  | [] => (0, 0)
  | _ =>
      let len := length payload in
      let padding_len := nth (len - 1) payload 0 in
      let t := sub64 (N.of_nat (len - 1)) padding_len in
      let good := sar31_byte (not64 t) in
      let to_check := Nat.min 256 len in
      let good := fold_left (pad_step payload padding_len) (seq 0 to_check) good in
      let good := fold_good good in
      let padding_len := N.land padding_len good in
      (padding_len + 1, good)
  end.
