(* Connection-level model of record delivery on an established DTLCP connection
   (dtlcp/conn.go readRecordOrCCS / ReadFrom after the handshake): what arrives is either a
   genuine record of the current epoch (byte-identical to one the peer sent, identified by its
   sequence number) or anything else (forged, bit-flipped, of another epoch, malformed).
   Anything else fails the epoch filter, the framing checks or authentication and is
   discarded without touching the window (authenticity of SM4-GCM / SM4-CBC+HMAC-SM3 records
   is the assumption that makes "anything else" fail); a genuine record goes through the replay
   window (Model/Replay.v).  The Finished message (sequence number 0 of the epoch) has already
   been accepted when the connection is established. *)
From V Require Export Model.Replay.
Open Scope N_scope.

Inductive item := Gen (seq : N) | Bogus.
Inductive outcome := Delivered (seq : N) | Nothing | Failed.

Definition conn_step (w : win) (it : item) : win * outcome :=
  match it with
  | Gen s => let '(w', b) := check w s in (w', if b then Delivered s else Nothing)
  | Bogus => (w, Nothing)
  end.

Fixpoint conn_run (w : win) (its : list item) : win * list outcome :=
  match its with
  | [] => (w, [])
  | it :: t => let '(w1, o) := conn_step w it in
               let '(w2, os) := conn_run w1 t in (w2, o :: os)
  end.

(* the window once the handshake is complete: the Finished (number 0) was accepted *)
Definition established (cfg : Z) : win := fst (check (conn_window cfg) 0).

Definition gens (its : list item) : list N :=
  flat_map (fun it => match it with Gen s => [s] | Bogus => [] end) its.
Definition delivered (os : list outcome) : list N :=
  flat_map (fun o => match o with Delivered s => [s] | _ => [] end) os.
