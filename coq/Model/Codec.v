(* Shared part of the handshake-message codec model (C14).
   - cryptobyte.String readers (ReadUint8/16/24, ReadBytes/Skip, Read*LengthPrefixed) as
     option-valued functions on byte lists: they never index out of range, failure = None;
   - cryptobyte.Builder writers (AddUint8/16/24, AddUint*LengthPrefixed);
   - the result type of a decoder: Ok / Reject (unmarshal returned false) / Panic (the Go code
     would index or slice out of range at the numbered site);
   - Go slice indexing / slicing with the bounds check made explicit;
   - the bodies of ClientHello / ServerHello (identical in tlcp and dtlcp apart from the cookie
     and the two places noted at [merge]), including every extension.
   Bytes are N; a well-formed byte is < 256 (premise [bytes_ok] in the proofs).
   Lengths are compared in N; N.to_nat is applied only to values already known to be at most the
   length of an actual list.  No proofs in this file. *)
From Coq Require Export NArith Arith List Lia Bool.
Export ListNotations.
Open Scope N_scope.

Definition bytes := list N.
Definition len (l : bytes) : N := N.of_nat (length l).
Definition empty (l : bytes) : bool := match l with [] => true | _ => false end.

(* ---------- decoder result ---------- *)
Inductive res (A : Type) : Type :=
| Ok (a : A)
| Reject
| Panic (site : nat).
Arguments Ok {A} a.
Arguments Reject {A}.
Arguments Panic {A} site.

Definition rbind {A B} (r : res A) (f : A -> res B) : res B :=
  match r with Ok a => f a | Reject => Reject | Panic s => Panic s end.
Definition of_opt {A} (o : option A) : res A :=
  match o with Some a => Ok a | None => Reject end.

Declare Scope res_scope.
Delimit Scope res_scope with res.
Notation "x <-- e ;; k" := (rbind e (fun x => k)) (at level 61, e at next level, right associativity) : res_scope.

(* option monad for the cryptobyte-based decoders *)
Notation "x <- e ;; k" := (match e with Some x => k | None => None end)
  (at level 61, e at next level, right associativity).
Notation "' ( x , y ) <- e ;; k" := (match e with Some (x, y) => k | None => None end)
  (at level 61, x pattern, y pattern, e at next level, right associativity).

(* ---------- cryptobyte.String ---------- *)
(* s.ReadBytes(&out, n) / s.Skip(n): fails when fewer than n bytes remain *)
Definition take (n : N) (s : bytes) : option (bytes * bytes) :=
  if len s <? n then None else Some (firstn (N.to_nat n) s, skipn (N.to_nat n) s).

Definition be24 (a b c : N) : N := a * 65536 + b * 256 + c.
Definition be16 (a b : N) : N := a * 256 + b.
Definition u32 (x : N) : N := x mod 4294967296.

Definition rd_u8 (s : bytes) : option (N * bytes) :=
  match s with b :: t => Some (b, t) | [] => None end.
Definition rd_u16 (s : bytes) : option (N * bytes) :=
  match s with a :: b :: t => Some (be16 a b, t) | _ => None end.
Definition rd_u24 (s : bytes) : option (N * bytes) :=
  match s with a :: b :: c :: t => Some (be24 a b c, t) | _ => None end.

Definition rd_vec8 (s : bytes) : option (bytes * bytes) :=
  '(n, t) <- rd_u8 s ;; take n t.
Definition rd_vec16 (s : bytes) : option (bytes * bytes) :=
  '(n, t) <- rd_u16 s ;; take n t.
Definition rd_vec24 (s : bytes) : option (bytes * bytes) :=
  '(n, t) <- rd_u24 s ;; take n t.

(* for !s.Empty() { if !s.ReadUint16(&v) { return false }; l = append(l, v) } *)
Fixpoint rd_u16s (s : bytes) : option (list N) :=
  match s with
  | [] => Some []
  | a :: b :: t => r <- rd_u16s t ;; Some (be16 a b :: r)
  | _ => None
  end.

(* ---------- cryptobyte.Builder ---------- *)
Definition u8 (x : N) : bytes := [x mod 256].
Definition u16 (x : N) : bytes := [(x / 256) mod 256; x mod 256].
Definition u24 (x : N) : bytes := [(x / 65536) mod 256; (x / 256) mod 256; x mod 256].
Definition vec8 (l : bytes) : bytes := u8 (len l) ++ l.
Definition vec16 (l : bytes) : bytes := u16 (len l) ++ l.
Definition vec24 (l : bytes) : bytes := u24 (len l) ++ l.
Definition u16s (l : list N) : bytes := flat_map u16 l.

(* ---------- Go indexing and slicing of []byte ---------- *)
(* s[i] *)
Definition idx (s : bytes) (i : N) (site : nat) : res N :=
  if len s <=? i then Panic site else Ok (nth (N.to_nat i) s 0).
(* s[i:]  (panics when i > len(s)) *)
Definition from (s : bytes) (i : N) (site : nat) : res bytes :=
  if len s <? i then Panic site else Ok (skipn (N.to_nat i) s).
(* s[i:j] (Go allows j up to cap(s); the model is stricter and panics when j > len(s)) *)
Definition sub (s : bytes) (i j : N) (site : nat) : res bytes :=
  if (j <? i) || (len s <? j) then Panic site
  else Ok (firstn (N.to_nat (j - i)) (skipn (N.to_nat i) s)).


(* ---------- handshake message types ---------- *)
Definition tClientHello : N := 1.
Definition tServerHello : N := 2.
Definition tHelloVerifyRequest : N := 3.
Definition tCertificate : N := 11.
Definition tServerKeyExchange : N := 12.
Definition tCertificateRequest : N := 13.
Definition tServerHelloDone : N := 14.
Definition tCertificateVerify : N := 15.
Definition tClientKeyExchange : N := 16.
Definition tFinished : N := 20.

Definition maxHandshake : N := 65536.

(* ---------- extension blocks: Extension extensions<0..2^16-1> ---------- *)
(* The Go loops read one (type, data) pair, process it, and go on.  The model first cuts the
   block into pairs and then folds the per-extension handler over them; the result (accept /
   reject, and the fields on accept) is the same, only the place where a reject is detected
   differs, which is not observable. *)
Fixpoint tlv16 (fuel : nat) (s : bytes) : option (list (N * bytes)) :=
  match s with
  | [] => Some []
  | _ => match fuel with
         | O => None
         | S k => '(t, s1) <- rd_u16 s ;; '(d, s2) <- rd_vec16 s1 ;;
                  r <- tlv16 k s2 ;; Some ((t, d) :: r)
         end
  end.
Definition exts_split (s : bytes) : option (list (N * bytes)) := tlv16 (length s) s.

Definition enc_ext (e : N * bytes) : bytes := u16 (fst e) ++ vec16 (snd e).
Definition enc_exts (l : list (N * bytes)) : bytes := flat_map enc_ext l.

Fixpoint fold_opt {S E} (f : S -> E -> option S) (st : S) (l : list E) : option S :=
  match l with
  | [] => Some st
  | e :: t => st' <- f st e ;; fold_opt f st' t
  end.

Definition extServerName : N := 0.
Definition extTrustedCAKeys : N := 3.
Definition extStatusRequest : N := 5.
Definition extSupportedGroups : N := 10.
Definition extSignatureAlgorithms : N := 13.
Definition extALPN : N := 16.
Definition extClientID : N := 66.

(* ---------- ServerHello ---------- *)
Record shello := mkSH {
  sh_vers : N; sh_random : bytes; sh_sid : bytes; sh_suite : N; sh_comp : N;
  sh_ocsp : bool; sh_ocsp_resp : bytes; sh_alpn : bytes; sh_ack : bool }.

Definition sh_ext (m : shello) (e : N * bytes) : option shello :=
  let '(t, d) := e in
  if t =? extStatusRequest then
    '(stype, d1) <- rd_u8 d ;;
    if negb (stype =? 1) then None else
    '(resp, d2) <- rd_vec24 d1 ;;
    if empty d2
    then Some (mkSH (sh_vers m) (sh_random m) (sh_sid m) (sh_suite m) (sh_comp m) true resp (sh_alpn m) (sh_ack m))
    else None
  else if t =? extALPN then
    '(pl, d1) <- rd_vec16 d ;;
    if empty pl then None else
    '(p, pl1) <- rd_vec8 pl ;;
    if empty p || negb (empty pl1) then None else
    if empty d1
    then Some (mkSH (sh_vers m) (sh_random m) (sh_sid m) (sh_suite m) (sh_comp m) (sh_ocsp m) (sh_ocsp_resp m) p (sh_ack m))
    else None
  else if t =? extServerName then
    if empty d
    then Some (mkSH (sh_vers m) (sh_random m) (sh_sid m) (sh_suite m) (sh_comp m) (sh_ocsp m) (sh_ocsp_resp m) (sh_alpn m) true)
    else None
  else Some m.     (* unknown extension: ignored *)

(* everything after the handshake header *)
Definition sh_body_dec (s : bytes) : option shello :=
  '(vers, s) <- rd_u16 s ;; '(random, s) <- take 32 s ;; '(sid, s) <- rd_vec8 s ;;
  '(suite, s) <- rd_u16 s ;; '(comp, s) <- rd_u8 s ;;
  let m := mkSH vers random sid suite comp false [] [] false in
  if empty s then Some m else
  '(exts, s) <- rd_vec16 s ;;
  if negb (empty s) then None else
  l <- exts_split exts ;; fold_opt sh_ext m l.

Definition sh_exts_enc (m : shello) : bytes :=
  (if sh_ocsp m && negb (empty (sh_ocsp_resp m))
   then u16 extStatusRequest ++ vec16 (u8 1 ++ vec24 (sh_ocsp_resp m)) else []) ++
  (if negb (empty (sh_alpn m))
   then u16 extALPN ++ vec16 (vec16 (vec8 (sh_alpn m))) else []) ++
  (if sh_ack m then u16 extServerName ++ u16 0 else []).

Definition sh_body_enc (m : shello) : bytes :=
  u16 (sh_vers m) ++ sh_random m ++ vec8 (sh_sid m) ++ u16 (sh_suite m) ++ u8 (sh_comp m) ++
  (if empty (sh_exts_enc m) then [] else vec16 (sh_exts_enc m)).

(* ---------- ClientHello ---------- *)
Record ta := mkTA { ta_type : N; ta_id : bytes }.

Record chello := mkCH {
  ch_vers : N; ch_random : bytes; ch_sid : bytes;
  ch_cookie : bytes;                  (* dtlcp only; [] in tlcp *)
  ch_suites : list N; ch_comp : bytes;
  ch_sni : bytes; ch_tas : list ta; ch_ocsp : bool; ch_curves : list N; ch_sigalgs : list N;
  ch_alpn : list bytes; ch_cid : bytes }.

(* server_name_list loop; cur = m.serverName so far (kept across duplicate extensions) *)
Definition ends_with_dot (name : bytes) : bool :=
  match rev name with c :: _ => c =? 46 | [] => false end.

Fixpoint sni_loop (fuel : nat) (s : bytes) (cur : bytes) : option bytes :=
  match s with
  | [] => Some cur
  | _ => match fuel with
         | O => None
         | S k =>
             '(nt, s1) <- rd_u8 s ;; '(name, s2) <- rd_vec16 s1 ;;
             if empty name then None
             else if negb (nt =? 0) then sni_loop k s2 cur          (* other name types: ignored *)
             else if negb (empty cur) then sni_loop k s2 cur         (* only the first host_name counts *)
             else if ends_with_dot name then None
             else sni_loop k s2 name
         end
  end.

(* trusted_authority_list loop; an unknown identifier type consumes only its type byte *)
Fixpoint ta_loop (fuel : nat) (s : bytes) : option (list ta) :=
  match s with
  | [] => Some []
  | t :: s1 =>
      match fuel with
      | O => None
      | S k =>
          if t =? 0 then r <- ta_loop k s1 ;; Some (mkTA t [] :: r)
          else if (t =? 4) || (t =? 5) then
            '(id, s2) <- take 32 s1 ;; r <- ta_loop k s2 ;; Some (mkTA t id :: r)
          else if t =? 2 then
            '(id, s2) <- rd_vec16 s1 ;; r <- ta_loop k s2 ;; Some (mkTA t id :: r)
          else ta_loop k s1
      end
  end.

(* protocol_name_list loop: every name non-empty *)
Fixpoint alpn_loop (fuel : nat) (s : bytes) : option (list bytes) :=
  match s with
  | [] => Some []
  | _ => match fuel with
         | O => None
         | S k => '(p, s1) <- rd_vec8 s ;;
                  if empty p then None else r <- alpn_loop k s1 ;; Some (p :: r)
         end
  end.

Definition ch_set_sni (m : chello) v := mkCH (ch_vers m) (ch_random m) (ch_sid m) (ch_cookie m) (ch_suites m) (ch_comp m)
  v (ch_tas m) (ch_ocsp m) (ch_curves m) (ch_sigalgs m) (ch_alpn m) (ch_cid m).
Definition ch_set_tas (m : chello) v := mkCH (ch_vers m) (ch_random m) (ch_sid m) (ch_cookie m) (ch_suites m) (ch_comp m)
  (ch_sni m) v (ch_ocsp m) (ch_curves m) (ch_sigalgs m) (ch_alpn m) (ch_cid m).
Definition ch_set_ocsp (m : chello) v := mkCH (ch_vers m) (ch_random m) (ch_sid m) (ch_cookie m) (ch_suites m) (ch_comp m)
  (ch_sni m) (ch_tas m) v (ch_curves m) (ch_sigalgs m) (ch_alpn m) (ch_cid m).
Definition ch_set_curves (m : chello) v := mkCH (ch_vers m) (ch_random m) (ch_sid m) (ch_cookie m) (ch_suites m) (ch_comp m)
  (ch_sni m) (ch_tas m) (ch_ocsp m) v (ch_sigalgs m) (ch_alpn m) (ch_cid m).
Definition ch_set_sigalgs (m : chello) v := mkCH (ch_vers m) (ch_random m) (ch_sid m) (ch_cookie m) (ch_suites m) (ch_comp m)
  (ch_sni m) (ch_tas m) (ch_ocsp m) (ch_curves m) v (ch_alpn m) (ch_cid m).
Definition ch_set_alpn (m : chello) v := mkCH (ch_vers m) (ch_random m) (ch_sid m) (ch_cookie m) (ch_suites m) (ch_comp m)
  (ch_sni m) (ch_tas m) (ch_ocsp m) (ch_curves m) (ch_sigalgs m) v (ch_cid m).
Definition ch_set_cid (m : chello) v := mkCH (ch_vers m) (ch_random m) (ch_sid m) (ch_cookie m) (ch_suites m) (ch_comp m)
  (ch_sni m) (ch_tas m) (ch_ocsp m) (ch_curves m) (ch_sigalgs m) (ch_alpn m) v.

(* [merge]: tlcp appends the values of a repeated supported_groups / signature_algorithms
   extension to the list (merge = true).  dtlcp allocates a fresh list before the per-value
   loop (`m.supportedCurves = make(...)`), so the values of the extension -- all of them, in
   order -- replace what an earlier extension of the same type left (merge = false). *)
Definition ch_ext (merge : bool) (m : chello) (e : N * bytes) : option chello :=
  let '(t, d) := e in
  if t =? extServerName then
    '(nl, d1) <- rd_vec16 d ;;
    if empty nl then None else
    name <- sni_loop (length nl) nl (ch_sni m) ;;
    if empty d1 then Some (ch_set_sni m name) else None
  else if t =? extTrustedCAKeys then
    '(tl, d1) <- rd_vec16 d ;;
    if empty tl then None else
    tas <- ta_loop (length tl) tl ;;
    if empty d1 then Some (ch_set_tas m (ch_tas m ++ tas)) else None
  else if t =? extStatusRequest then
    '(stype, d1) <- rd_u8 d ;; '(_, d2) <- rd_vec16 d1 ;; '(_, d3) <- rd_vec16 d2 ;;
    if empty d3 then Some (ch_set_ocsp m (stype =? 1)) else None
  else if t =? extSupportedGroups then
    '(cs, d1) <- rd_vec16 d ;;
    if empty cs then None else
    l <- rd_u16s cs ;;
    if empty d1
    then Some (ch_set_curves m (if merge then ch_curves m ++ l else l))
    else None
  else if t =? extSignatureAlgorithms then
    '(cs, d1) <- rd_vec16 d ;;
    if empty cs then None else
    l <- rd_u16s cs ;;
    if empty d1
    then Some (ch_set_sigalgs m (if merge then ch_sigalgs m ++ l else l))
    else None
  else if t =? extALPN then
    '(pl, d1) <- rd_vec16 d ;;
    if empty pl then None else
    ps <- alpn_loop (length pl) pl ;;
    if empty d1 then Some (ch_set_alpn m (ch_alpn m ++ ps)) else None
  else if t =? extClientID then
    '(id, d1) <- rd_vec16 d ;;
    if empty d1 then Some (ch_set_cid m id) else None
  else Some m.     (* unknown extension: ignored *)

(* after session_id (and cookie): cipher suites, compression methods, extensions *)
Definition ch_rest_dec (merge : bool) (vers : N) (random sid ck : bytes) (s : bytes) : option chello :=
  '(cs, s) <- rd_vec16 s ;; suites <- rd_u16s cs ;;
  '(comp, s) <- rd_vec8 s ;;
  let m := mkCH vers random sid ck suites comp [] [] false [] [] [] [] in
  if empty s then Some m else
  '(exts, s) <- rd_vec16 s ;;
  if negb (empty s) then None else
  l <- exts_split exts ;; fold_opt (ch_ext merge) m l.

(* everything after the handshake header; cookie = the dtlcp form *)
Definition ch_body_dec (cookie merge : bool) (s : bytes) : option chello :=
  '(vers, s) <- rd_u16 s ;; '(random, s) <- take 32 s ;; '(sid, s) <- rd_vec8 s ;;
  '(ck, s) <- (if cookie then rd_vec8 s else Some ([], s)) ;;
  ch_rest_dec merge vers random sid ck s.

Definition enc_ta (t : ta) : bytes :=
  u8 (ta_type t) ++
  (if ta_type t =? 0 then []
   else if (ta_type t =? 4) || (ta_type t =? 5) then ta_id t
   else if ta_type t =? 2 then vec16 (ta_id t)
   else []).

Definition ch_exts_enc (m : chello) : bytes :=
  (if negb (empty (ch_sni m))
   then u16 extServerName ++ vec16 (vec16 (u8 0 ++ vec16 (ch_sni m))) else []) ++
  (match ch_tas m with [] => [] | _ =>
     u16 extTrustedCAKeys ++ vec16 (vec16 (flat_map enc_ta (ch_tas m))) end) ++
  (if ch_ocsp m then u16 extStatusRequest ++ vec16 (u8 1 ++ u16 0 ++ u16 0) else []) ++
  (match ch_curves m with [] => [] | _ =>
     u16 extSupportedGroups ++ vec16 (vec16 (u16s (ch_curves m))) end) ++
  (match ch_sigalgs m with [] => [] | _ =>
     u16 extSignatureAlgorithms ++ vec16 (vec16 (u16s (ch_sigalgs m))) end) ++
  (match ch_alpn m with [] => [] | _ =>
     u16 extALPN ++ vec16 (vec16 (flat_map vec8 (ch_alpn m))) end) ++
  (if negb (empty (ch_cid m))
   then u16 extClientID ++ vec16 (vec16 (ch_cid m)) else []).

Definition ch_body_enc (cookie : bool) (m : chello) : bytes :=
  u16 (ch_vers m) ++ ch_random m ++ vec8 (ch_sid m) ++
  (if cookie then vec8 (ch_cookie m) else []) ++
  vec16 (u16s (ch_suites m)) ++ vec8 (ch_comp m) ++
  (if empty (ch_exts_enc m) then [] else vec16 (ch_exts_enc m)).
