(* C09, stream stack: the input side of tlcp/conn.go as a state machine whose state carries the
   buffers a connection holds for its peer's input:
     rawInput  (bytes read from the transport and not yet consumed),
     hand      (handshake bytes not yet handed to the handshake layer),
     retryCount (consecutive non-advancing records).
   Modelled: readFromUntil / atLeastReader (fill), readRecordOrCCS (header checks, maxCiphertext,
   decryption result, maxPlaintext, the record-type switch, retryReadRecord), readHandshake (the
   two waiting loops, maxHandshake), the hand checks of Conn.Read after completion (fix F8, and
   46481b8 for the read-ahead call).  The connection-wide latch c.fatal (46481b8) adds nothing to
   the input side: every error of the read half already ends the machine (t_alive = false).
   Abstract (arguments over which every theorem quantifies):
     - record protection: [dec cipher_on typ body] = the plaintext, or None for bad_record_mac;
     - the handshake layer above readHandshake / readChangeCipherSpec: a state of any type S with
       [on_msg] (what it does with one complete message: fail, or go on and say what it reads next
       and which version it fixed) and [on_ccs] (after readChangeCipherSpec returned).  Client and
       server, full and resumed handshakes, and every rejection are instances.
   Bytes are N; sizes are nat (all below 2^17).  No proofs in this file. *)
From V Require Export Model.Codec.
Open Scope nat_scope.

(* nat literals above 5000 are opaque to lia in Coq 8.16: the constants are written as products *)
Definition maxCiphertext : nat := 18 * 1024.      (* 18432 = 16384 + 2048 *)
Definition maxPlaintext : nat := 16 * 1024.       (* 16384 *)
Definition maxHandshakeT : nat := 64 * 1024.      (* 65536 *)
Definition maxUselessRecords : nat := 16.
Definition recordHeaderLen : nat := 5.

(* what the code above the record layer is blocked in *)
Inductive want :=
| WMsg      (* readHandshake *)
| WCcs      (* readChangeCipherSpec *)
| WApp.     (* handshake complete: Conn.Read *)
Definition want_eqb (a b : want) : bool :=
  match a, b with WMsg, WMsg | WCcs, WCcs | WApp, WApp => true | _, _ => false end.

(* a record as it reaches readRecordOrCCS; r_buffered: its first byte already sat in rawInput when
   the previous application data was returned (Conn.Read then reads an alert ahead) *)
Record trec := mkRec { r_typ : N; r_vers : N; r_body : bytes; r_buffered : bool }.

Definition be24n (a b c : N) : nat := N.to_nat (be24 a b c).

Section Machine.
  Variable S : Type.
  Variable on_msg : S -> bytes -> option (S * want * option N).
  Variable on_ccs : S -> option (S * want).
  Variable dec : bool -> N -> bytes -> option bytes.

  Record tconn := mkT {
    t_alive : bool;          (* c.in.err == nil *)
    t_want : want;
    t_hs : S;
    t_hand : bytes;          (* c.hand *)
    t_retry : nat;           (* c.retryCount *)
    t_vers : option N;       (* haveVers / vers *)
    t_cipher : bool;         (* c.in.cipher != nil *)
    t_delivered : nat;       (* application bytes handed to Read so far *)
    t_armed : bool;          (* the last readRecord call of Conn.Read returned application data *)
    t_peek : bool            (* inside the read-ahead readRecord call at the end of Conn.Read *)
  }.

  Definition init (s : S) (w : want) : tconn := mkT true w s [] 0 None false 0 false false.

  Definition kill (c : tconn) : tconn :=
    mkT false (t_want c) (t_hs c) (t_hand c) (t_retry c) (t_vers c) (t_cipher c) (t_delivered c) (t_armed c) (t_peek c).
  Definition set_retry (c : tconn) (r : nat) : tconn :=
    mkT (t_alive c) (t_want c) (t_hs c) (t_hand c) r (t_vers c) (t_cipher c) (t_delivered c) (t_armed c) (t_peek c).
  Definition set_hand (c : tconn) (h : bytes) : tconn :=
    mkT (t_alive c) (t_want c) (t_hs c) h (t_retry c) (t_vers c) (t_cipher c) (t_delivered c) (t_armed c) (t_peek c).
  Definition set_flags (c : tconn) (armed peek : bool) : tconn :=
    mkT (t_alive c) (t_want c) (t_hs c) (t_hand c) (t_retry c) (t_vers c) (t_cipher c) (t_delivered c) armed peek.

  (* retryReadRecord: count, give up above maxUselessRecords, otherwise read the next record
     (the recursion is the next step of the machine) *)
  Definition retry_or_die (c : tconn) : tconn :=
    let r := Datatypes.S (t_retry c) in
    if maxUselessRecords <? r then kill (set_retry c r) else set_retry c r.

  (* the checks readRecordOrCCS makes on the 5 header bytes, before it reads the payload *)
  Definition hdr_ok (c : tconn) (typ vers : N) (n : nat) : bool :=
    let hs_done := want_eqb (t_want c) WApp in
    if negb hs_done && (typ =? 128)%N then false else
    if match t_vers c with
       | Some v => negb (vers =? v)%N
       | None => (negb (typ =? 21)%N && negb (typ =? 22)%N) || (4096 <=? vers)%N
       end then false else
    if maxCiphertext <? n then false else true.

  (* readRecordOrCCS once the whole record is in rawInput; the flag says whether the function
     returned to its caller (true) or recursed through retryReadRecord (false) *)
  Definition body_step (c : tconn) (typ : N) (body : bytes) : tconn * bool :=
    let hs_done := want_eqb (t_want c) WApp in
    let expect_ccs := want_eqb (t_want c) WCcs in
    match dec (t_cipher c) typ body with
    | None => (kill c, true)
    | Some data =>
        if maxPlaintext <? length data then (kill c, true) else
        if negb (t_cipher c) && (typ =? 23)%N then (kill c, true) else
        let c := if negb (typ =? 21)%N && negb (typ =? 20)%N && (0 <? length data) then set_retry c 0 else c in
        if (typ =? 21)%N then
          match data with
          | [lvl; code] =>
              if (code =? 0)%N then (kill c, true)                 (* close_notify: io.EOF *)
              else if (lvl =? 1)%N then (retry_or_die c, false)    (* warning: dropped *)
              else (kill c, true)
          | _ => (kill c, true)
          end
        else if (typ =? 20)%N then
          match data with
          | [1%N] =>
              if negb (empty (t_hand c)) then (kill c, true) else
              if negb expect_ccs then (kill c, true) else
              match on_ccs (t_hs c) with
              | None => (kill c, true)
              | Some (s, w) => (mkT true w s (t_hand c) (t_retry c) (t_vers c) true (t_delivered c) false false, true)
              end
          | _ => (kill c, true)
          end
        else if (typ =? 23)%N then
          if negb hs_done || expect_ccs then (kill c, true) else
          if length data =? 0 then (retry_or_die c, false)
          else (mkT true (t_want c) (t_hs c) (t_hand c) (t_retry c) (t_vers c) (t_cipher c) (t_delivered c + length data) true (t_peek c), true)
        else if (typ =? 22)%N then
          if (length data =? 0) || expect_ccs then (kill c, true)
          else (set_hand c (t_hand c ++ data), true)
        else (kill c, true)
    end.

  (* readHandshake with what it already holds: hand every complete message to the handshake
     layer; stop when it must read another record, when the handshake layer reads something
     else, or on an error *)
  Fixpoint drive (fuel : nat) (c : tconn) : tconn :=
    match fuel with
    | O => c
    | Datatypes.S k =>
        if negb (t_alive c) || negb (want_eqb (t_want c) WMsg) then c else
        match t_hand c with
        | _ :: a :: b :: d :: _ =>
            let n := be24n a b d in
            if maxHandshakeT <? n then kill c else
            if length (t_hand c) <? 4 + n then c else
            let msg := firstn (4 + n) (t_hand c) in
            let rest := skipn (4 + n) (t_hand c) in
            match on_msg (t_hs c) msg with
            | None => kill (set_hand c rest)
            | Some (s, w, v) =>
                drive k (mkT true w s rest (t_retry c)
                             (match v with Some x => Some x | None => t_vers c end)
                             (t_cipher c) (t_delivered c) false false)
            end
        | _ => c
        end
    end.

  (* after readRecordOrCCS returned: readHandshake goes on; Conn.Read refuses handshake bytes after
     both of its readRecord calls: the read loop (fix F8) and the read-ahead call at its end
     (46481b8: the error is returned together with the n bytes already delivered) *)
  Definition after_return (before : want) (c : tconn) : tconn :=
    if negb (t_alive c) then c else
    match t_want c with
    | WMsg => drive (Datatypes.S (length (t_hand c))) c
    | WCcs => c
    | WApp =>
        if want_eqb before WApp && negb (empty (t_hand c)) then kill c     (* no_renegotiation, latched in c.fatal *)
        else if t_peek c then set_flags c (t_armed c) false
        else c
    end.

  (* Conn.Read decides which of its two readRecord calls takes the next record: the read-ahead
     call if application data was just returned and an alert is already buffered, otherwise the
     read loop of the next Read *)
  Definition enter (c : tconn) (r : trec) : tconn :=
    if t_peek c then c                                   (* still inside a retry recursion *)
    else if t_armed c && (r_typ r =? 21)%N && r_buffered r then set_flags c false true
    else set_flags c false false.

  (* one record *)
  Definition tstep (c0 : tconn) (r : trec) : tconn :=
    if negb (t_alive c0) then c0 else
    let c := enter c0 r in
    if negb (hdr_ok c (r_typ r) (r_vers r) (length (r_body r))) then kill c else
    let '(c1, returned) := body_step c (r_typ r) (r_body r) in
    if returned then after_return (t_want c) c1 else c1.

  Definition trun (c : tconn) (rs : list trec) : tconn := fold_left tstep rs c.

  (* the same without the check fix F8 added to Conn.Read *)
  Definition after_return_F8 (c : tconn) : tconn :=
    if negb (t_alive c) then c else
    match t_want c with
    | WMsg => drive (Datatypes.S (length (t_hand c))) c
    | _ => c
    end.
  Definition tstep_F8 (c0 : tconn) (r : trec) : tconn :=
    if negb (t_alive c0) then c0 else
    let c := enter c0 r in
    if negb (hdr_ok c (r_typ r) (r_vers r) (length (r_body r))) then kill c else
    let '(c1, returned) := body_step c (r_typ r) (r_body r) in
    if returned then after_return_F8 c1 else c1.

  (* ---------------- byte level: rawInput and the transport ---------------- *)
  (* the transport hands over its bytes in chunks (one per Read call) *)
  Definition transport := list bytes.

  (* readFromUntil(need): whole chunks are appended until rawInput holds at least need bytes;
     None: the transport has no more bytes (the reader blocks or sees EOF) *)
  Fixpoint fill (raw : bytes) (t : transport) (need : nat) : option (bytes * transport) :=
    if need <=? length raw then Some (raw, t)
    else match t with
         | [] => None
         | ch :: r => fill (raw ++ ch) r need
         end.

  Inductive bstop := Blocked | Ended | OutOfFuel.

  (* the read loop of the connection over a byte stream: one iteration = one readRecordOrCCS
     (a retry recursion is the next iteration) *)
  (* the result also carries the largest size rawInput had *)
  Fixpoint brun (fuel : nat) (c : tconn) (raw : bytes) (t : transport) (peak : nat)
    : tconn * bytes * transport * bstop * nat :=
    let peak := Nat.max peak (length raw) in
    match fuel with
    | O => (c, raw, t, OutOfFuel, peak)
    | Datatypes.S k =>
        if negb (t_alive c) then (c, raw, t, Ended, peak) else
        match fill raw t recordHeaderLen with
        | None => (c, raw ++ concat t, [], Blocked, Nat.max peak (length (raw ++ concat t)))
        | Some (raw1, t1) =>
            let typ := nth 0 raw1 0%N in
            let vers := be16 (nth 1 raw1 0%N) (nth 2 raw1 0%N) in
            let n := N.to_nat (be16 (nth 3 raw1 0%N) (nth 4 raw1 0%N)) in
            if negb (hdr_ok c typ vers n) then (kill c, raw1, t1, Ended, Nat.max peak (length raw1)) else
            match fill raw1 t1 (recordHeaderLen + n) with
            | None => (c, raw1 ++ concat t1, [], Blocked, Nat.max peak (length (raw1 ++ concat t1)))
            | Some (raw2, t2) =>
                let body := firstn n (skipn recordHeaderLen raw2) in
                (* the first byte of this record was buffered before the previous record was
                   processed iff rawInput then held more than that record *)
                brun k (tstep c (mkRec typ vers body (0 <? length raw)))
                     (skipn (recordHeaderLen + n) raw2) t2 (Nat.max peak (length raw2))
            end
        end
    end.

  (* total number of bytes still to be consumed *)
  Definition pending_bytes (raw : bytes) (t : transport) : nat := length raw + length (concat t).
End Machine.

Arguments t_alive {S}.
Arguments t_want {S}.
Arguments t_hs {S}.
Arguments t_hand {S}.
Arguments t_retry {S}.
Arguments t_vers {S}.
Arguments t_cipher {S}.
Arguments t_delivered {S}.
Arguments t_armed {S}.
Arguments t_peek {S}.
Arguments init {S}.
Arguments kill {S}.
