(* Model of dtlcp/handshake_messages.go: the ten DTLCP handshake messages with the 12-byte
   header [type:1][length:3][message_seq:2][fragment_offset:3][fragment_length:3].
   clientHello, helloVerifyRequest, serverHello, certificateVerify and finished decode the
   header with dtlcpUnmarshalHeader (cryptobyte); certificate, serverKeyExchange,
   certificateRequest, serverHelloDone and clientKeyExchange index the header by hand.
   Every message struct keeps messageSeq / fragmentOffset / fragmentLength; marshal writes
   fragment_length = body length when the stored fragmentLength is 0.
   No proofs in this file. *)
From V Require Export Model.Codec Model.CodecT.
Open Scope N_scope.
Open Scope res_scope.

Record dh := mkDH { dh_seq : N; dh_off : N; dh_flen : N }.

(* dtlcpWriteHeader *)
Definition d_hdr (typ blen seq off flen : N) : bytes :=
  typ :: u24 blen ++ u16 seq ++ u24 off ++ u24 flen.
(* dtlcpMarshalHeader and the identical hand-written header code of the other marshalers *)
Definition d_msg (typ : N) (h : dh) (body : bytes) : bytes :=
  d_hdr typ (len body) (dh_seq h) (dh_off h) (if dh_flen h =? 0 then len body else dh_flen h) ++ body.

(* dtlcpUnmarshalHeader: (type, bodyLen, fragment fields, body).  When fragment_length > 0 the
   body is cut to fragment_length bytes (what follows is dropped); bodyLen is only returned. *)
Definition d_unhdr (data : bytes) : option (N * N * dh * bytes) :=
  '(typ, s) <- rd_u8 data ;; '(blen, s) <- rd_u24 s ;; '(seq, s) <- rd_u16 s ;;
  '(off, s) <- rd_u24 s ;; '(flen, s) <- rd_u24 s ;;
  if 0 <? flen
  then (if len s <? flen then None else Some (typ, blen, mkDH seq off flen, firstn (N.to_nat flen) s))
  else Some (typ, blen, mkDH seq off flen, s).

(* m.messageSeq = data[4]<<8|data[5]; m.fragmentOffset = data[6..8]; m.fragmentLength = data[9..11] *)
Definition d_fields (data : bytes) (site0 : nat) : res dh :=
  b4 <-- idx data 4 (site0 + 4) ;; b5 <-- idx data 5 (site0 + 5) ;;
  b6 <-- idx data 6 (site0 + 6) ;; b7 <-- idx data 7 (site0 + 7) ;; b8 <-- idx data 8 (site0 + 8) ;;
  b9 <-- idx data 9 (site0 + 9) ;; b10 <-- idx data 10 (site0 + 10) ;; b11 <-- idx data 11 (site0 + 11) ;;
  Ok (mkDH (be16 b4 b5) (be24 b6 b7 b8) (be24 b9 b10 b11)).

(* ---------- finishedMsg ---------- *)
Definition D_fin_enc (m : dh * bytes) : bytes := d_msg tFinished (fst m) (snd m).
(* verifyData = make([]byte, bodyLen); copy(verifyData, body) *)
Definition D_fin_dec (data : bytes) : res (dh * bytes) :=
  of_opt ('((typ, blen, h), body) <- d_unhdr data ;;
          if negb (typ =? tFinished) then None else
          if maxHandshake <? blen then None else
          Some (h, firstn (N.to_nat blen) body ++ repeat 0 (N.to_nat (blen - len body)))).

(* ---------- serverHelloDoneMsg: marshal writes zero fragment fields whatever is stored ---------- *)
Definition D_shd_enc (m : dh * unit) : bytes :=
  d_hdr tServerHelloDone 0 (dh_seq (fst m)) 0 0.
Definition D_shd_dec (data : bytes) : res (dh * unit) :=
  if len data <? 12 then Reject else
  h <-- d_fields data 200 ;;
  b1 <-- idx data 1 201 ;; b2 <-- idx data 2 202 ;; b3 <-- idx data 3 203 ;;
  let bodyLen := be24 b1 b2 b3 in
  if negb (bodyLen =? 0) then Reject else
  b0 <-- idx data 0 213 ;;
  if b0 =? tServerHelloDone then Ok (h, tt) else Reject.

(* ---------- clientKeyExchangeMsg ---------- *)
Definition D_ckx_enc (m : dh * bytes) : bytes := d_msg tClientKeyExchange (fst m) (snd m).
Definition D_ckx_dec (data : bytes) : res (dh * bytes) :=
  if len data <? 12 then Reject else
  h <-- d_fields data 220 ;;
  b1 <-- idx data 1 221 ;; b2 <-- idx data 2 222 ;; b3 <-- idx data 3 223 ;;
  let l := be24 b1 b2 b3 in
  if negb (l =? len data - 12) then Reject else
  (* m.ciphertext = make([]byte, l); copy(m.ciphertext, data[12:]) *)
  d <-- from data 12 233 ;;
  Ok (h, d).

(* ---------- serverKeyExchangeMsg ---------- *)
Definition D_skx_enc (m : dh * bytes) : bytes := d_msg tServerKeyExchange (fst m) (snd m).
Definition D_skx_dec (data : bytes) : res (dh * bytes) :=
  if len data <? 12 then Reject else
  h <-- d_fields data 240 ;;
  d <-- from data 12 253 ;;
  Ok (h, d).

(* ---------- certificateVerifyMsg ---------- *)
Definition D_cv_enc (m : dh * bytes) : bytes := d_msg tCertificateVerify (fst m) (vec16 (snd m)).
Definition D_cv_dec (data : bytes) : res (dh * bytes) :=
  of_opt ('((typ, _, h), body) <- d_unhdr data ;;
          if negb (typ =? tCertificateVerify) then None else
          '(sig, s) <- rd_vec16 body ;; if empty s then Some (h, sig) else None).

(* ---------- certificateMsg ---------- *)
Definition D_cert_enc (m : dh * list bytes) : bytes :=
  d_msg tCertificate (fst m) (vec24 (certs_enc (snd m))).
Definition D_cert_dec (data : bytes) : res (dh * list bytes) :=
  if len data <? 15 then Reject else
  h <-- d_fields data 260 ;;
  cs <-- cert_dec_at 12 280 data ;;
  Ok (h, cs).

(* ---------- certificateRequestMsg ---------- *)
Definition D_creq_enc (m : dh * (bytes * list bytes)) : bytes :=
  d_msg tCertificateRequest (fst m) (creq_body_enc (fst (snd m)) (snd (snd m))).
Definition D_creq_dec (data : bytes) : res (dh * (bytes * list bytes)) :=
  if len data <? 13 then Reject else
  h <-- d_fields data 300 ;;
  b1 <-- idx data 1 301 ;; b2 <-- idx data 2 302 ;; b3 <-- idx data 3 303 ;;
  let length := be24 b1 b2 b3 in
  if negb (u32 (u32 (len data) + 4294967296 - 12) =? length) then Reject else
  r <-- creq_dec_at 12 320 data ;;
  Ok (h, r).

(* ---------- helloVerifyRequestMsg ---------- *)
Definition D_hvr_enc (m : dh * (N * bytes)) : bytes :=
  d_msg tHelloVerifyRequest (fst m) (u16 (fst (snd m)) ++ vec8 (snd (snd m))).
Definition D_hvr_dec (data : bytes) : res (dh * (N * bytes)) :=
  of_opt ('((typ, _, h), body) <- d_unhdr data ;;
          if negb (typ =? tHelloVerifyRequest) then None else
          '(ver, s) <- rd_u16 body ;; '(ck, s) <- rd_vec8 s ;;
          if empty s then Some (h, (ver, ck)) else None).

(* ---------- serverHelloMsg ---------- *)
Definition D_sh_enc (m : dh * shello) : bytes := d_msg tServerHello (fst m) (sh_body_enc (snd m)).
Definition D_sh_dec (data : bytes) : res (dh * shello) :=
  of_opt ('((typ, _, h), body) <- d_unhdr data ;;
          if negb (typ =? tServerHello) then None else
          m <- sh_body_dec body ;; Some (h, m)).

(* ---------- clientHelloMsg ---------- *)
Definition D_ch_enc (m : dh * chello) : bytes := d_msg tClientHello (fst m) (ch_body_enc true (snd m)).
Definition D_ch_dec (data : bytes) : res (dh * chello) :=
  of_opt ('((typ, _, h), body) <- d_unhdr data ;;
          if negb (typ =? tClientHello) then None else
          m <- ch_body_dec true false body ;; Some (h, m)).
