(* Publication of handshake completion (property C13): the abstract form of the argument behind the
   handshake-phase exemption of the lockset check.  One thread runs the handshake: it touches
   fields of the connection without the locks the other threads use, and at some point publishes
   completion (an atomic store).  Another thread touches the same fields only after it has
   observed completion (an atomic load that returned "complete", or Handshake() returning nil). *)
From Coq Require Import List Bool.
Import ListNotations.

Inductive hev := HAcc | HPub | HSkip.   (* unlocked access to the field / publishing store / anything else *)
Inductive wev := WObs | WAcc | WSkip.   (* observes completion (enabled only once published) / access / anything else *)

(* remaining programs of the two threads, and whether completion has been published *)
Record pstate := mkP { p_h : list hev; p_w : list wev; p_pub : bool }.

Inductive pstep : pstate -> pstate -> Prop :=
| PH_acc : forall h w b, pstep (mkP (HAcc :: h) w b) (mkP h w b)
| PH_skip : forall h w b, pstep (mkP (HSkip :: h) w b) (mkP h w b)
| PH_pub : forall h w b, pstep (mkP (HPub :: h) w b) (mkP h w true)
| PW_obs : forall h w, pstep (mkP h (WObs :: w) true) (mkP h w true)
| PW_acc : forall h w b, pstep (mkP h (WAcc :: w) b) (mkP h w b)
| PW_skip : forall h w b, pstep (mkP h (WSkip :: w) b) (mkP h w b).

Inductive preach (s0 : pstate) : pstate -> Prop :=
| PR_refl : preach s0 s0
| PR_step : forall s s', preach s0 s -> pstep s s' -> preach s0 s'.

(* both threads are about to touch the field *)
Definition prace (s : pstate) : Prop := exists h w, p_h s = HAcc :: h /\ p_w s = WAcc :: w.

Definition no_acc (h : list hev) : bool := forallb (fun e => match e with HAcc => false | _ => true end) h.

(* the handshake thread does not touch the field after its (first) publishing store *)
Fixpoint publish_last (h : list hev) : bool :=
  match h with
  | [] => true
  | HPub :: t => no_acc t
  | _ :: t => publish_last t
  end.

(* the other thread touches the field only after an observation *)
Fixpoint guarded (w : list wev) : bool :=
  match w with
  | [] => true
  | WObs :: _ => true
  | WAcc :: _ => false
  | WSkip :: t => guarded t
  end.
