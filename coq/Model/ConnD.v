(* C09, datagram stack: the input side of dtlcp/conn.go as a state machine whose state carries
   what a connection holds for its peer's input:
     rawInputBuf (rest of the current datagram), handBuf (handshake bytes not yet handed up),
     pendingFragments (reassembly buffers, Model/Fragment.v), retryCount, fragmentReads,
     handLenAtEntry (local variable of readRecordOrCCS).
   Modelled, following the library as it is now (the fixes that touch this code: a747200, 593205a,
   1e7de38, 6b259b8, bfc7028, and the record-layer drop rules of 73e5128 / 627c7bd / ea20d51 /
   1e457f3):
   readDatagram (a loop that skips datagrams from other source addresses; the maxCiphertext+13 byte
   read buffer), readRecordOrCCS (one loop iteration per record: "return once handBuf grew instead
   of reading another datagram", header checks, epoch filter, decryption result, stray-CCS drop,
   replay drop, maxPlaintext, the record-type switch with its continue / return paths,
   deferredCCS, the 2*MSL dwell retransmission; on an established connection malformed datagrams
   and records that fail authentication are discarded silently), countUselessRecord (a warning
   alert is counted and the loop goes on: the record reader does not call itself, there is one
   frame of readRecordOrCCS and one handLenAtEntry per call), readChangeCipherSpec, readHandshake
   (fragmentReads limit, the two waiting loops, maxHandshake, fragment bounds, the limit on the
   number of reassembly buffers, reassembly through Fragment.rh_step).
   Not in the state because the code keeps nothing for it: what is written (writeFlight 5831190,
   empty application records a14f836: output side); the client / server handshake loops (e9234b4,
   da0cf9c: instances of the abstract handshake layer).
   Abstract (arguments over which every theorem quantifies): record protection [dec], the replay
   window verdicts [fresh], the clock of the dwell period [dwell_time] / [has_flight], and the
   handshake layer [on_msg] / [on_ccs] as in Model/ConnT.v.
   Ghost fields (not in the Go state): d_n (records seen: index into the oracles), d_calls
   (1 + readHandshake calls started after the first thing the handshake layer read), d_frames
   (frames of readRecordOrCCS beneath the running one: written only by the pre-fix definitions
   dretry_or_die_K15 / dafter_K15, nothing in the code as it is touches it).
   The code before fixes 593205a (K13), 1e7de38 (K12), 6b259b8 (K14), bfc7028 (K15) is kept as the
   named regression definitions read_datagram_K13, ddrive_K12 / dafter_K12 / drun_K12, drun_K14,
   dretry_or_die_K15 / process_K15 / dafter_K15 / drun_K15.
   No proofs in this file. *)
From V Require Export Model.Codec Model.ConnT.
From V Require Export Model.Fragment.
Open Scope nat_scope.

Definition dRecordHeaderLen : nat := 13.
Definition dHeaderLen : nat := 12.
Definition maxHandshakeFragments : nat := 256.
Definition dgramBuf : nat := 18 * 1024 + 13.          (* make([]byte, maxCiphertext+recordHeaderLen) *)

(* a datagram as ReadFrom returns it: from another address than the peer's, or from the peer *)
Inductive dgram := Foreign | FromPeer (b : bytes).

(* two bytes as uint16 / three as an int, whatever the list holds (bytes are < 256) *)
Definition b16 (a b : N) : N := (a mod 256) * 256 + b mod 256.
Definition b24n (a b c : N) : nat := N.to_nat ((a mod 256) * 65536 + (b mod 256) * 256 + c mod 256).
Definition nth0 (l : bytes) (i : nat) : N := nth i l 0%N.

Inductive act := Continue | Return.

(* total size of the reassembly buffers: data and received-bitmask of each *)
Definition pend_bytes (p : pending) : nat :=
  fold_right (fun kv acc => length (fb_data (snd kv)) + length (fb_recv (snd kv)) + acc) 0 p.

(* readHandshake's fragment path: is the piece at the head of handBuf a fragment, is there a
   reassembly buffer for its message number, must a new buffer be refused (1e7de38) *)
Definition is_fragment (f : frag) : bool := Nat.ltb (f_len f) (f_blen f) || Nat.ltb 0 (f_off f).
Definition pmem (k : N) (p : pending) : bool := match plookup k p with Some _ => true | None => false end.
Definition refuse_new_buffer (p : pending) (f : frag) : bool :=
  is_fragment f && negb (pmem (f_seq f) p) && (maxHandshakeFragments <=? length p).

(* readDatagram before 593205a: `return c.readDatagram()` for a datagram from another address; the
   result also carries the number of frames of readDatagram on the stack when the peer's datagram
   (or the end of the input) is reached *)
Fixpoint read_datagram_K13 (dgs : list dgram) (depth : nat) : option bytes * list dgram * nat :=
  match dgs with
  | [] => (None, [], depth)
  | Foreign :: t => read_datagram_K13 t (Datatypes.S depth)
  | FromPeer b :: t => (Some (firstn dgramBuf b), t, depth)
  end.

Section DMachine.
  Variable S : Type.
  Variable on_msg : S -> bytes -> option (S * want * option N).
  Variable on_ccs : S -> option (S * want).
  Variable dec : bool -> N -> bytes -> option bytes.
  Variable fresh : nat -> bool.
  Variable dwell_time : nat -> bool.
  Variable has_flight : bool.

  Record dconn := mkD {
    d_alive : bool;
    d_want : want;
    d_hs : S;
    d_raw : bytes;
    d_hand : bytes;
    d_pend : pending;
    d_retry : nat;
    d_vers : option N;
    d_cipher : bool;
    d_epoch : N;
    d_deferred : bool;
    d_ccs_done : bool;
    d_dwell : bool;
    d_delivered : nat;
    d_freads : nat;
    d_counted : bool;
    d_n : nat;
    d_entry : nat;
    d_frames : nat;
    d_calls : nat
  }.

  Definition set_alive (c : dconn) (x : bool) : dconn :=
    mkD x (d_want c) (d_hs c) (d_raw c) (d_hand c) (d_pend c) (d_retry c) (d_vers c) (d_cipher c) (d_epoch c) (d_deferred c) (d_ccs_done c) (d_dwell c) (d_delivered c) (d_freads c) (d_counted c) (d_n c) (d_entry c) (d_frames c) (d_calls c).
  Definition set_want (c : dconn) (x : want) : dconn :=
    mkD (d_alive c) x (d_hs c) (d_raw c) (d_hand c) (d_pend c) (d_retry c) (d_vers c) (d_cipher c) (d_epoch c) (d_deferred c) (d_ccs_done c) (d_dwell c) (d_delivered c) (d_freads c) (d_counted c) (d_n c) (d_entry c) (d_frames c) (d_calls c).
  Definition set_hs (c : dconn) (x : S) : dconn :=
    mkD (d_alive c) (d_want c) x (d_raw c) (d_hand c) (d_pend c) (d_retry c) (d_vers c) (d_cipher c) (d_epoch c) (d_deferred c) (d_ccs_done c) (d_dwell c) (d_delivered c) (d_freads c) (d_counted c) (d_n c) (d_entry c) (d_frames c) (d_calls c).
  Definition set_raw (c : dconn) (x : bytes) : dconn :=
    mkD (d_alive c) (d_want c) (d_hs c) x (d_hand c) (d_pend c) (d_retry c) (d_vers c) (d_cipher c) (d_epoch c) (d_deferred c) (d_ccs_done c) (d_dwell c) (d_delivered c) (d_freads c) (d_counted c) (d_n c) (d_entry c) (d_frames c) (d_calls c).
  Definition set_hand (c : dconn) (x : bytes) : dconn :=
    mkD (d_alive c) (d_want c) (d_hs c) (d_raw c) x (d_pend c) (d_retry c) (d_vers c) (d_cipher c) (d_epoch c) (d_deferred c) (d_ccs_done c) (d_dwell c) (d_delivered c) (d_freads c) (d_counted c) (d_n c) (d_entry c) (d_frames c) (d_calls c).
  Definition set_pend (c : dconn) (x : pending) : dconn :=
    mkD (d_alive c) (d_want c) (d_hs c) (d_raw c) (d_hand c) x (d_retry c) (d_vers c) (d_cipher c) (d_epoch c) (d_deferred c) (d_ccs_done c) (d_dwell c) (d_delivered c) (d_freads c) (d_counted c) (d_n c) (d_entry c) (d_frames c) (d_calls c).
  Definition set_retry (c : dconn) (x : nat) : dconn :=
    mkD (d_alive c) (d_want c) (d_hs c) (d_raw c) (d_hand c) (d_pend c) x (d_vers c) (d_cipher c) (d_epoch c) (d_deferred c) (d_ccs_done c) (d_dwell c) (d_delivered c) (d_freads c) (d_counted c) (d_n c) (d_entry c) (d_frames c) (d_calls c).
  Definition set_vers (c : dconn) (x : option N) : dconn :=
    mkD (d_alive c) (d_want c) (d_hs c) (d_raw c) (d_hand c) (d_pend c) (d_retry c) x (d_cipher c) (d_epoch c) (d_deferred c) (d_ccs_done c) (d_dwell c) (d_delivered c) (d_freads c) (d_counted c) (d_n c) (d_entry c) (d_frames c) (d_calls c).
  Definition set_cipher (c : dconn) (x : bool) : dconn :=
    mkD (d_alive c) (d_want c) (d_hs c) (d_raw c) (d_hand c) (d_pend c) (d_retry c) (d_vers c) x (d_epoch c) (d_deferred c) (d_ccs_done c) (d_dwell c) (d_delivered c) (d_freads c) (d_counted c) (d_n c) (d_entry c) (d_frames c) (d_calls c).
  Definition set_epoch (c : dconn) (x : N) : dconn :=
    mkD (d_alive c) (d_want c) (d_hs c) (d_raw c) (d_hand c) (d_pend c) (d_retry c) (d_vers c) (d_cipher c) x (d_deferred c) (d_ccs_done c) (d_dwell c) (d_delivered c) (d_freads c) (d_counted c) (d_n c) (d_entry c) (d_frames c) (d_calls c).
  Definition set_deferred (c : dconn) (x : bool) : dconn :=
    mkD (d_alive c) (d_want c) (d_hs c) (d_raw c) (d_hand c) (d_pend c) (d_retry c) (d_vers c) (d_cipher c) (d_epoch c) x (d_ccs_done c) (d_dwell c) (d_delivered c) (d_freads c) (d_counted c) (d_n c) (d_entry c) (d_frames c) (d_calls c).
  Definition set_ccs_done (c : dconn) (x : bool) : dconn :=
    mkD (d_alive c) (d_want c) (d_hs c) (d_raw c) (d_hand c) (d_pend c) (d_retry c) (d_vers c) (d_cipher c) (d_epoch c) (d_deferred c) x (d_dwell c) (d_delivered c) (d_freads c) (d_counted c) (d_n c) (d_entry c) (d_frames c) (d_calls c).
  Definition set_dwell (c : dconn) (x : bool) : dconn :=
    mkD (d_alive c) (d_want c) (d_hs c) (d_raw c) (d_hand c) (d_pend c) (d_retry c) (d_vers c) (d_cipher c) (d_epoch c) (d_deferred c) (d_ccs_done c) x (d_delivered c) (d_freads c) (d_counted c) (d_n c) (d_entry c) (d_frames c) (d_calls c).
  Definition set_delivered (c : dconn) (x : nat) : dconn :=
    mkD (d_alive c) (d_want c) (d_hs c) (d_raw c) (d_hand c) (d_pend c) (d_retry c) (d_vers c) (d_cipher c) (d_epoch c) (d_deferred c) (d_ccs_done c) (d_dwell c) x (d_freads c) (d_counted c) (d_n c) (d_entry c) (d_frames c) (d_calls c).
  Definition set_freads (c : dconn) (x : nat) : dconn :=
    mkD (d_alive c) (d_want c) (d_hs c) (d_raw c) (d_hand c) (d_pend c) (d_retry c) (d_vers c) (d_cipher c) (d_epoch c) (d_deferred c) (d_ccs_done c) (d_dwell c) (d_delivered c) x (d_counted c) (d_n c) (d_entry c) (d_frames c) (d_calls c).
  Definition set_counted (c : dconn) (x : bool) : dconn :=
    mkD (d_alive c) (d_want c) (d_hs c) (d_raw c) (d_hand c) (d_pend c) (d_retry c) (d_vers c) (d_cipher c) (d_epoch c) (d_deferred c) (d_ccs_done c) (d_dwell c) (d_delivered c) (d_freads c) x (d_n c) (d_entry c) (d_frames c) (d_calls c).
  Definition set_n (c : dconn) (x : nat) : dconn :=
    mkD (d_alive c) (d_want c) (d_hs c) (d_raw c) (d_hand c) (d_pend c) (d_retry c) (d_vers c) (d_cipher c) (d_epoch c) (d_deferred c) (d_ccs_done c) (d_dwell c) (d_delivered c) (d_freads c) (d_counted c) x (d_entry c) (d_frames c) (d_calls c).
  Definition set_entry (c : dconn) (x : nat) : dconn :=
    mkD (d_alive c) (d_want c) (d_hs c) (d_raw c) (d_hand c) (d_pend c) (d_retry c) (d_vers c) (d_cipher c) (d_epoch c) (d_deferred c) (d_ccs_done c) (d_dwell c) (d_delivered c) (d_freads c) (d_counted c) (d_n c) x (d_frames c) (d_calls c).
  Definition set_frames (c : dconn) (x : nat) : dconn :=
    mkD (d_alive c) (d_want c) (d_hs c) (d_raw c) (d_hand c) (d_pend c) (d_retry c) (d_vers c) (d_cipher c) (d_epoch c) (d_deferred c) (d_ccs_done c) (d_dwell c) (d_delivered c) (d_freads c) (d_counted c) (d_n c) (d_entry c) x (d_calls c).
  Definition set_calls (c : dconn) (x : nat) : dconn :=
    mkD (d_alive c) (d_want c) (d_hs c) (d_raw c) (d_hand c) (d_pend c) (d_retry c) (d_vers c) (d_cipher c) (d_epoch c) (d_deferred c) (d_ccs_done c) (d_dwell c) (d_delivered c) (d_freads c) (d_counted c) (d_n c) (d_entry c) (d_frames c) x.

  Definition dinit (s : S) (w : want) : dconn :=
    mkD true w s [] [] [] 0 None false 0%N false false false 0 0 false 0 0 0 1.

  Definition dkill (c : dconn) : dconn := set_alive c false.

  (* c.handBuf.Len() > handLenAtEntry *)
  Definition grown (c : dconn) : bool := d_entry c <? length (d_hand c).
  (* a new frame of readRecordOrCCS: handLenAtEntry := c.handBuf.Len() *)
  Definition enter_call (c : dconn) : dconn := set_entry c (length (d_hand c)).

  (* countUselessRecord: count, give up above maxUselessRecords; the caller (the warning-alert case)
     goes on with its loop *)
  Definition dretry_or_die (c : dconn) : dconn :=
    let r := Datatypes.S (d_retry c) in
    if maxUselessRecords <? r then dkill (set_retry c r) else set_retry c r.

  (* before bfc7028 (finding K15): retryReadRecord counted likewise and then called readRecordOrCCS
     again: one more frame on the stack, with its own handLenAtEntry *)
  Definition dretry_or_die_K15 (c : dconn) : dconn :=
    let r := Datatypes.S (d_retry c) in
    if maxUselessRecords <? r then dkill (set_retry c r)
    else enter_call (set_frames (set_retry c r) (Datatypes.S (d_frames c))).

  (* ---------------- readDatagram ---------------- *)
  (* c.rawInputBuf holds fewer than 13 bytes: the next datagram replaces it.  A datagram from
     another address is skipped by the loop of readDatagram (nothing is kept for it); one that is
     too short for a record header ends the handshake, and is dropped after completion *)
  Definition load (c : dconn) (d : dgram) : dconn :=
    match d with
    | Foreign => c                                               (* continue *)
    | FromPeer b =>
        let raw := firstn dgramBuf b in
        if length raw <? dRecordHeaderLen then
          if want_eqb (d_want c) WApp then set_raw c []          (* c.rawInputBuf = nil; continue *)
          else dkill (set_raw c raw)                             (* "record too short" *)
        else set_raw c raw
    end.

  (* ---------------- one iteration of the loop in readRecordOrCCS ---------------- *)
  (* the record-type switch; c already has rawInputBuf advanced past the record (rest);
     idx = number of the record (for the oracles), hs_done = handshakeComplete,
     expect = the local expectChangeCipherSpec.  The *_with definitions take what the
     warning-alert case does after c.rawInputBuf = nil as an argument: countUselessRecord in the
     code as it is (p_alert, dispatch, p_body, process below), retryReadRecord before bfc7028
     (process_K15) *)
  Definition p_alert_with (retry : dconn -> dconn) (c : dconn) (data : bytes) : dconn * act :=
    match data with
    | [lvl; code] =>
        if (code =? 0)%N then (dkill c, Return)                               (* close_notify *)
        else if (lvl =? 1)%N then (retry (set_raw c []), Continue)            (* warning: dropped, with the rest of its datagram *)
        else (dkill c, Return)
    | _ => (dkill c, Return)
    end.

  Definition p_ccs (c : dconn) (data rest : bytes) (idx : nat) (hs_done expect : bool) : dconn * act :=
    match data with
    | [1%N] =>
        if hs_done && d_dwell c && dwell_time idx && has_flight then (c, Continue) else
        let c := if hs_done && d_dwell c then set_dwell c false else c in
        if negb expect && negb (empty (d_hand c)) then (set_deferred c true, Return) else
        if negb expect then (c, Continue) else
        match on_ccs (d_hs c) with
        | None => (dkill c, Return)
        | Some _ =>
            let c := set_epoch (set_ccs_done (set_cipher c true) true) ((d_epoch c + 1) mod 65536)%N in
            if 0 <? length rest then (c, Continue) else (c, Return)
        end
    | _ => (dkill c, Return)
    end.

  Definition p_app (c : dconn) (data : bytes) (hs_done expect : bool) : dconn * act :=
    if negb hs_done || expect then (dkill c, Return) else
    let c := set_dwell c false in
    if length data =? 0 then (c, Continue)
    else (set_delivered c (d_delivered c + length data), Return).

  Definition p_hs (c : dconn) (data rest : bytes) (idx : nat) (hs_done expect : bool) : dconn * act :=
    if hs_done && d_dwell c && dwell_time idx then (c, Continue) else
    if length data =? 0 then (dkill c, Return) else
    if expect then (c, Continue) else
    if hs_done then (c, Continue) else
    let c := set_hand c (d_hand c ++ data) in
    if (dRecordHeaderLen <=? length rest) && (nth0 rest 0 =? 22)%N then (c, Continue) else (c, Return).

  Definition dispatch_with (retry : dconn -> dconn) (c : dconn) (typ : N) (data rest : bytes) (idx : nat) (hs_done expect : bool) : dconn * act :=
    if (typ =? 21)%N then p_alert_with retry c data
    else if (typ =? 20)%N then p_ccs c data rest idx hs_done expect
    else if (typ =? 23)%N then p_app c data hs_done expect
    else if (typ =? 22)%N then p_hs c data rest idx hs_done expect
    else (dkill c, Return).

  (* after the header checks: epoch filter (the dwell retransmission it may trigger changes nothing
     here), decryption (a failure is fatal during the handshake, a silent drop after it), drops,
     size checks *)
  Definition p_body_with (retry : dconn -> dconn) (c : dconn) (typ epoch : N) (body rest : bytes) (idx : nat) (hs_done expect : bool) : dconn * act :=
    if negb (epoch =? d_epoch c)%N then (set_raw c rest, Continue) else
    match dec (d_cipher c) typ body with
    | None => if hs_done then (set_raw c rest, Continue) else (dkill c, Return)
    | Some data =>
        if (typ =? 20)%N && negb expect && negb hs_done && empty (d_hand c) then (set_raw c rest, Continue) else
        if negb (fresh idx) then (set_raw c rest, Continue) else
        if maxPlaintext <? length data then (dkill c, Return) else
        if negb (d_cipher c) && (typ =? 23)%N then (dkill c, Return) else
        let c := if negb (typ =? 21)%N && negb (typ =? 20)%N && (0 <? length data) then set_retry c 0 else c in
        dispatch_with retry (set_raw c rest) typ data rest idx hs_done expect
    end.

  (* precondition: 13 <= |rawInputBuf|.  After completion a datagram whose head is not a
     well-formed record of the connection's version is dropped as a whole *)
  Definition process_with (retry : dconn -> dconn) (c0 : dconn) : dconn * act :=
    let raw := d_raw c0 in
    let typ := nth0 raw 0 in
    let vers := b16 (nth0 raw 1) (nth0 raw 2) in
    let epoch := b16 (nth0 raw 3) (nth0 raw 4) in
    let n := N.to_nat (b16 (nth0 raw 11) (nth0 raw 12)) in
    let hs_done := want_eqb (d_want c0) WApp in
    let expect := want_eqb (d_want c0) WCcs && negb (d_ccs_done c0) in
    let drop := (set_raw c0 [], Continue) in                      (* c.rawInputBuf = nil; continue *)
    if match d_vers c0 with Some v => negb (vers =? v)%N | None => false end
    then (if hs_done then drop else (dkill c0, Return)) else
    if match d_vers c0 with Some _ => false | None => (negb (typ =? 21)%N && negb (typ =? 22)%N) || (4096 <=? vers)%N end
    then (dkill c0, Return) else
    if hs_done && ((maxCiphertext <? n) || (length raw <? dRecordHeaderLen + n)) then drop else
    if maxCiphertext <? n then (dkill c0, Return) else
    if length raw <? dRecordHeaderLen + n then (dkill c0, Return) else
    p_body_with retry (set_n c0 (Datatypes.S (d_n c0))) typ epoch
           (firstn n (skipn dRecordHeaderLen raw)) (skipn (dRecordHeaderLen + n) raw) (d_n c0) hs_done expect.

  (* the code as it is *)
  Definition p_alert (c : dconn) (data : bytes) : dconn * act := p_alert_with dretry_or_die c data.
  Definition dispatch (c : dconn) (typ : N) (data rest : bytes) (idx : nat) (hs_done expect : bool) : dconn * act :=
    dispatch_with dretry_or_die c typ data rest idx hs_done expect.
  Definition p_body (c : dconn) (typ epoch : N) (body rest : bytes) (idx : nat) (hs_done expect : bool) : dconn * act :=
    p_body_with dretry_or_die c typ epoch body rest idx hs_done expect.
  Definition process (c0 : dconn) : dconn * act := process_with dretry_or_die c0.

  (* ---------------- readHandshake on what handBuf holds ---------------- *)
  (* a new readHandshake call *)
  Definition new_call (c : dconn) : dconn :=
    set_calls (set_counted (set_freads c 0) false) (Datatypes.S (d_calls c)).

  (* the handshake layer moves on after a message / after readChangeCipherSpec *)
  Definition move_on (c : dconn) (s : S) (w : want) (v : option N) : dconn :=
    let c := set_want (set_hs c s) w in
    let c := match v with Some x => set_vers c (Some x) | None => c end in
    match w with WMsg => new_call c | _ => c end.

  Fixpoint ddrive (fuel : nat) (c : dconn) : dconn :=
    match fuel with
    | O => c
    | Datatypes.S k =>
        if negb (d_alive c) then c else
        match d_want c with
        | WApp => c
        | WCcs =>
            (* readChangeCipherSpec: a ChangeCipherSpec consumed earlier is applied at once *)
            if d_deferred c then
              match on_ccs (d_hs c) with
              | None => dkill (set_deferred c false)
              | Some (s, w) =>
                  let c := set_epoch (set_cipher (set_deferred c false) true) ((d_epoch c + 1) mod 65536)%N in
                  ddrive k (move_on c s w None)
              end
            else c
        | WMsg =>
            (* top of the loop: fragmentReads++ *)
            let c := if d_counted c then c else set_counted (set_freads c (Datatypes.S (d_freads c))) true in
            if maxHandshakeFragments <? d_freads c then dkill c else
            let h := d_hand c in
            if length h <? dHeaderLen then c else
            let blen := b24n (nth0 h 1) (nth0 h 2) (nth0 h 3) in
            let seq := b16 (nth0 h 4) (nth0 h 5) in
            let off := b24n (nth0 h 6) (nth0 h 7) (nth0 h 8) in
            let flen := b24n (nth0 h 9) (nth0 h 10) (nth0 h 11) in
            if maxHandshakeT <? blen then dkill c else
            if blen <? off + flen then dkill c else
            if length h <? dHeaderLen + flen then c else
            let f := mkFrag (nth0 h 0) blen seq off flen (firstn flen (skipn dHeaderLen h)) in
            let c := set_counted (set_hand c (skipn (dHeaderLen + flen) h)) false in
            (* no new reassembly buffer when maxHandshakeFragments of them exist: "too many incomplete
               handshake messages" *)
            if refuse_new_buffer (d_pend c) f then dkill c else
            match rh_step (d_pend c) f with
            | (p, Cont) => ddrive k (set_pend c p)
            | (p, RErr _) => dkill (set_pend c p)
            | (p, Msg m) =>
                match on_msg (d_hs c) m with
                | None => dkill (set_pend c p)
                | Some (s, w, v) => ddrive k (move_on (set_pend c p) s w v)
                end
            end
        end
    end.

  (* enough fuel for ddrive: every iteration that goes on takes at least a header off handBuf,
     or clears deferredCCS *)
  Definition dfuel (c : dconn) : nat := Datatypes.S (Datatypes.S (length (d_hand c))).

  (* readRecordOrCCS returned to its caller; the caller goes on and, if the connection is still
     there, will call readRecordOrCCS again *)
  Definition dafter (c : dconn) : dconn :=
    if negb (d_alive c) then c else
    enter_call
      match d_want c with
      | WMsg => ddrive (dfuel c) c
      | WCcs =>
          if d_ccs_done c then
            match on_ccs (d_hs c) with
            | None => dkill c
            | Some (s, w) => let c := move_on (set_ccs_done c false) s w None in ddrive (dfuel c) c
            end
          else c
      | WApp => c
      end.

  Inductive dstop := DBlocked | DEnded | DOutOfFuel.

  (* the connection over a sequence of datagrams: one iteration = one trip through the loop of
     readRecordOrCCS (or one datagram taken by readDatagram) *)
  Fixpoint drun (fuel : nat) (c : dconn) (dgs : list dgram) : dconn * list dgram * dstop :=
    match fuel with
    | O => (c, dgs, DOutOfFuel)
    | Datatypes.S k =>
        if negb (d_alive c) then (c, dgs, DEnded) else
        if length (d_raw c) <? dRecordHeaderLen then
          (* the datagram is used up: back to the handshake layer if handBuf grew in this call *)
          if grown c then drun k (dafter c) dgs else
          match dgs with
          | [] => (c, [], DBlocked)
          | d :: t => drun k (load c d) t
          end
        else
          match process c with
          | (c1, Continue) => drun k c1 dgs
          | (c1, Return) => drun k (dafter c1) dgs
          end
    end.

  (* ---------------- regression definitions ---------------- *)
  (* the same without the limit on the number of reassembly buffers (before 1e7de38, finding K12) *)
  Fixpoint ddrive_K12 (fuel : nat) (c : dconn) : dconn :=
    match fuel with
    | O => c
    | Datatypes.S k =>
        if negb (d_alive c) then c else
        match d_want c with
        | WApp => c
        | WCcs =>
            (* readChangeCipherSpec: a ChangeCipherSpec consumed earlier is applied at once *)
            if d_deferred c then
              match on_ccs (d_hs c) with
              | None => dkill (set_deferred c false)
              | Some (s, w) =>
                  let c := set_epoch (set_cipher (set_deferred c false) true) ((d_epoch c + 1) mod 65536)%N in
                  ddrive_K12 k (move_on c s w None)
              end
            else c
        | WMsg =>
            (* top of the loop: fragmentReads++ *)
            let c := if d_counted c then c else set_counted (set_freads c (Datatypes.S (d_freads c))) true in
            if maxHandshakeFragments <? d_freads c then dkill c else
            let h := d_hand c in
            if length h <? dHeaderLen then c else
            let blen := b24n (nth0 h 1) (nth0 h 2) (nth0 h 3) in
            let seq := b16 (nth0 h 4) (nth0 h 5) in
            let off := b24n (nth0 h 6) (nth0 h 7) (nth0 h 8) in
            let flen := b24n (nth0 h 9) (nth0 h 10) (nth0 h 11) in
            if maxHandshakeT <? blen then dkill c else
            if blen <? off + flen then dkill c else
            if length h <? dHeaderLen + flen then c else
            let f := mkFrag (nth0 h 0) blen seq off flen (firstn flen (skipn dHeaderLen h)) in
            let c := set_counted (set_hand c (skipn (dHeaderLen + flen) h)) false in
            match rh_step (d_pend c) f with
            | (p, Cont) => ddrive_K12 k (set_pend c p)
            | (p, RErr _) => dkill (set_pend c p)
            | (p, Msg m) =>
                match on_msg (d_hs c) m with
                | None => dkill (set_pend c p)
                | Some (s, w, v) => ddrive_K12 k (move_on (set_pend c p) s w v)
                end
            end
        end
    end.

  Definition dafter_K12 (c : dconn) : dconn :=
    if negb (d_alive c) then c else
    enter_call
      match d_want c with
      | WMsg => ddrive_K12 (dfuel c) c
      | WCcs =>
          if d_ccs_done c then
            match on_ccs (d_hs c) with
            | None => dkill c
            | Some (s, w) => let c := move_on (set_ccs_done c false) s w None in ddrive_K12 (dfuel c) c
            end
          else c
      | WApp => c
      end.

  Fixpoint drun_K12 (fuel : nat) (c : dconn) (dgs : list dgram) : dconn * list dgram * dstop :=
    match fuel with
    | O => (c, dgs, DOutOfFuel)
    | Datatypes.S k =>
        if negb (d_alive c) then (c, dgs, DEnded) else
        if length (d_raw c) <? dRecordHeaderLen then
          (* the datagram is used up: back to the handshake layer if handBuf grew in this call *)
          if grown c then drun_K12 k (dafter_K12 c) dgs else
          match dgs with
          | [] => (c, [], DBlocked)
          | d :: t => drun_K12 k (load c d) t
          end
        else
          match process c with
          | (c1, Continue) => drun_K12 k c1 dgs
          | (c1, Return) => drun_K12 k (dafter_K12 c1) dgs
          end
    end.

  (* the same without the return once handBuf grew (before 6b259b8, finding K14) *)
  Fixpoint drun_K14 (fuel : nat) (c : dconn) (dgs : list dgram) : dconn * list dgram * dstop :=
    match fuel with
    | O => (c, dgs, DOutOfFuel)
    | Datatypes.S k =>
        if negb (d_alive c) then (c, dgs, DEnded) else
        if length (d_raw c) <? dRecordHeaderLen then
          match dgs with
          | [] => (c, [], DBlocked)
          | d :: t => drun_K14 k (load c d) t
          end
        else
          match process c with
          | (c1, Continue) => drun_K14 k c1 dgs
          | (c1, Return) => drun_K14 k (dafter c1) dgs
          end
    end.

  (* the same with the warning-alert case calling retryReadRecord (before bfc7028, finding K15):
     the retry enters a new frame of readRecordOrCCS; every frame of that recursion returns
     together when the innermost one does *)
  Definition process_K15 (c0 : dconn) : dconn * act := process_with dretry_or_die_K15 c0.
  Definition dafter_K15 (c : dconn) : dconn :=
    if negb (d_alive c) then c else dafter (set_frames c 0).

  Fixpoint drun_K15 (fuel : nat) (c : dconn) (dgs : list dgram) : dconn * list dgram * dstop :=
    match fuel with
    | O => (c, dgs, DOutOfFuel)
    | Datatypes.S k =>
        if negb (d_alive c) then (c, dgs, DEnded) else
        if length (d_raw c) <? dRecordHeaderLen then
          if grown c then drun_K15 k (dafter_K15 c) dgs else
          match dgs with
          | [] => (c, [], DBlocked)
          | d :: t => drun_K15 k (load c d) t
          end
        else
          match process_K15 c with
          | (c1, Continue) => drun_K15 k c1 dgs
          | (c1, Return) => drun_K15 k (dafter_K15 c1) dgs
          end
    end.

  (* bytes still to be consumed, counted so that every iteration lowers the measure *)
  Definition dg_size (d : dgram) : nat :=
    match d with Foreign => dRecordHeaderLen | FromPeer b => Nat.min dgramBuf (length b) + dRecordHeaderLen end.
  Definition dmeasure (c : dconn) (dgs : list dgram) : nat :=
    2 * (length (d_raw c) + list_sum (map dg_size dgs)) + (if grown c then 1 else 0).
End DMachine.

Arguments d_alive {S}.
Arguments d_want {S}.
Arguments d_hs {S}.
Arguments d_raw {S}.
Arguments d_hand {S}.
Arguments d_pend {S}.
Arguments d_retry {S}.
Arguments d_vers {S}.
Arguments d_cipher {S}.
Arguments d_epoch {S}.
Arguments d_deferred {S}.
Arguments d_ccs_done {S}.
Arguments d_dwell {S}.
Arguments d_delivered {S}.
Arguments d_freads {S}.
Arguments d_counted {S}.
Arguments d_n {S}.
Arguments d_entry {S}.
Arguments d_frames {S}.
Arguments d_calls {S}.
Arguments dinit {S}.
