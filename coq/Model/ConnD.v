(* C09, datagram stack: the input side of dtlcp/conn.go as a state machine whose state carries
   what a connection holds for its peer's input:
     rawInputBuf (rest of the current datagram), handBuf (handshake bytes not yet handed up),
     pendingFragments (reassembly buffers, Model/Fragment.v), retryCount, fragmentReads,
     the depth of the readDatagram recursion.
   Modelled: readDatagram (foreign source addresses, the maxCiphertext+13 byte read buffer),
   readRecordOrCCS (one loop iteration per record: header checks, epoch filter, decryption result,
   stray-CCS drop, replay drop, maxPlaintext, the record-type switch with its continue / return /
   retry paths, deferredCCS, the 2*MSL dwell retransmission), readChangeCipherSpec, readHandshake
   (fragmentReads limit, the two waiting loops, maxHandshake, fragment bounds, reassembly through
   Fragment.rh_step).
   Abstract (arguments over which every theorem quantifies): record protection [dec], the replay
   window verdicts [fresh], the clock of the dwell period [dwell_time] / [has_flight], and the
   handshake layer [on_msg] / [on_ccs] as in Model/ConnT.v.
   [fix11] selects the repair proposed for finding K14 (once handBuf grew in a readRecordOrCCS
   call, return instead of reading another datagram); the code as built is fix11 = false.
   Ghost fields (not in the Go state): d_n (records seen: index into the oracles), d_iters (fragment
   loop iterations so far), d_calls (1 + readHandshake calls started after the first thing the
   handshake layer read), d_appended.
   No proofs in this file. *)
From V Require Export Model.Codec Model.ConnT.
From V Require Export Model.Fragment.
Open Scope nat_scope.

Definition dRecordHeaderLen : nat := 13.
Definition dHeaderLen : nat := 12.
Definition maxHandshakeFragments : nat := 256.
Definition dgramBuf : nat := 18 * 1024 + 13.          (* make([]byte, maxCiphertext+recordHeaderLen) *)

(* a datagram as ReadFrom returns it: from another address than the peer's, or from the peer *)
Inductive dgram := Foreign | FromPeer (b : bytes).

(* two bytes as uint16 / three as an int, whatever the list holds (bytes are < 256) *)
Definition b16 (a b : N) : N := (a mod 256) * 256 + b mod 256.
Definition b24n (a b c : N) : nat := N.to_nat ((a mod 256) * 65536 + (b mod 256) * 256 + c mod 256).
Definition nth0 (l : bytes) (i : nat) : N := nth i l 0%N.

Inductive act := Continue | Return.

Section DMachine.
  Variable S : Type.
  Variable on_msg : S -> bytes -> option (S * want * option N).
  Variable on_ccs : S -> option (S * want).
  Variable dec : bool -> N -> bytes -> option bytes.
  Variable fresh : nat -> bool.
  Variable dwell_time : nat -> bool.
  Variable has_flight : bool.
  Variable fix11 : bool.

  Record dconn := mkD {
    d_alive : bool;
    d_want : want;
    d_hs : S;
    d_raw : bytes;
    d_hand : bytes;
    d_pend : pending;
    d_retry : nat;
    d_vers : option N;
    d_cipher : bool;
    d_epoch : N;
    d_deferred : bool;
    d_ccs_done : bool;
    d_dwell : bool;
    d_delivered : nat;
    d_freads : nat;
    d_counted : bool;
    d_n : nat;
    d_depth : nat;
    d_appended : bool;
    d_iters : nat;
    d_calls : nat
  }.

  Definition set_alive (c : dconn) (x : bool) : dconn :=
    mkD x (d_want c) (d_hs c) (d_raw c) (d_hand c) (d_pend c) (d_retry c) (d_vers c) (d_cipher c) (d_epoch c) (d_deferred c) (d_ccs_done c) (d_dwell c) (d_delivered c) (d_freads c) (d_counted c) (d_n c) (d_depth c) (d_appended c) (d_iters c) (d_calls c).
  Definition set_want (c : dconn) (x : want) : dconn :=
    mkD (d_alive c) x (d_hs c) (d_raw c) (d_hand c) (d_pend c) (d_retry c) (d_vers c) (d_cipher c) (d_epoch c) (d_deferred c) (d_ccs_done c) (d_dwell c) (d_delivered c) (d_freads c) (d_counted c) (d_n c) (d_depth c) (d_appended c) (d_iters c) (d_calls c).
  Definition set_hs (c : dconn) (x : S) : dconn :=
    mkD (d_alive c) (d_want c) x (d_raw c) (d_hand c) (d_pend c) (d_retry c) (d_vers c) (d_cipher c) (d_epoch c) (d_deferred c) (d_ccs_done c) (d_dwell c) (d_delivered c) (d_freads c) (d_counted c) (d_n c) (d_depth c) (d_appended c) (d_iters c) (d_calls c).
  Definition set_raw (c : dconn) (x : bytes) : dconn :=
    mkD (d_alive c) (d_want c) (d_hs c) x (d_hand c) (d_pend c) (d_retry c) (d_vers c) (d_cipher c) (d_epoch c) (d_deferred c) (d_ccs_done c) (d_dwell c) (d_delivered c) (d_freads c) (d_counted c) (d_n c) (d_depth c) (d_appended c) (d_iters c) (d_calls c).
  Definition set_hand (c : dconn) (x : bytes) : dconn :=
    mkD (d_alive c) (d_want c) (d_hs c) (d_raw c) x (d_pend c) (d_retry c) (d_vers c) (d_cipher c) (d_epoch c) (d_deferred c) (d_ccs_done c) (d_dwell c) (d_delivered c) (d_freads c) (d_counted c) (d_n c) (d_depth c) (d_appended c) (d_iters c) (d_calls c).
  Definition set_pend (c : dconn) (x : pending) : dconn :=
    mkD (d_alive c) (d_want c) (d_hs c) (d_raw c) (d_hand c) x (d_retry c) (d_vers c) (d_cipher c) (d_epoch c) (d_deferred c) (d_ccs_done c) (d_dwell c) (d_delivered c) (d_freads c) (d_counted c) (d_n c) (d_depth c) (d_appended c) (d_iters c) (d_calls c).
  Definition set_retry (c : dconn) (x : nat) : dconn :=
    mkD (d_alive c) (d_want c) (d_hs c) (d_raw c) (d_hand c) (d_pend c) x (d_vers c) (d_cipher c) (d_epoch c) (d_deferred c) (d_ccs_done c) (d_dwell c) (d_delivered c) (d_freads c) (d_counted c) (d_n c) (d_depth c) (d_appended c) (d_iters c) (d_calls c).
  Definition set_vers (c : dconn) (x : option N) : dconn :=
    mkD (d_alive c) (d_want c) (d_hs c) (d_raw c) (d_hand c) (d_pend c) (d_retry c) x (d_cipher c) (d_epoch c) (d_deferred c) (d_ccs_done c) (d_dwell c) (d_delivered c) (d_freads c) (d_counted c) (d_n c) (d_depth c) (d_appended c) (d_iters c) (d_calls c).
  Definition set_cipher (c : dconn) (x : bool) : dconn :=
    mkD (d_alive c) (d_want c) (d_hs c) (d_raw c) (d_hand c) (d_pend c) (d_retry c) (d_vers c) x (d_epoch c) (d_deferred c) (d_ccs_done c) (d_dwell c) (d_delivered c) (d_freads c) (d_counted c) (d_n c) (d_depth c) (d_appended c) (d_iters c) (d_calls c).
  Definition set_epoch (c : dconn) (x : N) : dconn :=
    mkD (d_alive c) (d_want c) (d_hs c) (d_raw c) (d_hand c) (d_pend c) (d_retry c) (d_vers c) (d_cipher c) x (d_deferred c) (d_ccs_done c) (d_dwell c) (d_delivered c) (d_freads c) (d_counted c) (d_n c) (d_depth c) (d_appended c) (d_iters c) (d_calls c).
  Definition set_deferred (c : dconn) (x : bool) : dconn :=
    mkD (d_alive c) (d_want c) (d_hs c) (d_raw c) (d_hand c) (d_pend c) (d_retry c) (d_vers c) (d_cipher c) (d_epoch c) x (d_ccs_done c) (d_dwell c) (d_delivered c) (d_freads c) (d_counted c) (d_n c) (d_depth c) (d_appended c) (d_iters c) (d_calls c).
  Definition set_ccs_done (c : dconn) (x : bool) : dconn :=
    mkD (d_alive c) (d_want c) (d_hs c) (d_raw c) (d_hand c) (d_pend c) (d_retry c) (d_vers c) (d_cipher c) (d_epoch c) (d_deferred c) x (d_dwell c) (d_delivered c) (d_freads c) (d_counted c) (d_n c) (d_depth c) (d_appended c) (d_iters c) (d_calls c).
  Definition set_dwell (c : dconn) (x : bool) : dconn :=
    mkD (d_alive c) (d_want c) (d_hs c) (d_raw c) (d_hand c) (d_pend c) (d_retry c) (d_vers c) (d_cipher c) (d_epoch c) (d_deferred c) (d_ccs_done c) x (d_delivered c) (d_freads c) (d_counted c) (d_n c) (d_depth c) (d_appended c) (d_iters c) (d_calls c).
  Definition set_delivered (c : dconn) (x : nat) : dconn :=
    mkD (d_alive c) (d_want c) (d_hs c) (d_raw c) (d_hand c) (d_pend c) (d_retry c) (d_vers c) (d_cipher c) (d_epoch c) (d_deferred c) (d_ccs_done c) (d_dwell c) x (d_freads c) (d_counted c) (d_n c) (d_depth c) (d_appended c) (d_iters c) (d_calls c).
  Definition set_freads (c : dconn) (x : nat) : dconn :=
    mkD (d_alive c) (d_want c) (d_hs c) (d_raw c) (d_hand c) (d_pend c) (d_retry c) (d_vers c) (d_cipher c) (d_epoch c) (d_deferred c) (d_ccs_done c) (d_dwell c) (d_delivered c) x (d_counted c) (d_n c) (d_depth c) (d_appended c) (d_iters c) (d_calls c).
  Definition set_counted (c : dconn) (x : bool) : dconn :=
    mkD (d_alive c) (d_want c) (d_hs c) (d_raw c) (d_hand c) (d_pend c) (d_retry c) (d_vers c) (d_cipher c) (d_epoch c) (d_deferred c) (d_ccs_done c) (d_dwell c) (d_delivered c) (d_freads c) x (d_n c) (d_depth c) (d_appended c) (d_iters c) (d_calls c).
  Definition set_n (c : dconn) (x : nat) : dconn :=
    mkD (d_alive c) (d_want c) (d_hs c) (d_raw c) (d_hand c) (d_pend c) (d_retry c) (d_vers c) (d_cipher c) (d_epoch c) (d_deferred c) (d_ccs_done c) (d_dwell c) (d_delivered c) (d_freads c) (d_counted c) x (d_depth c) (d_appended c) (d_iters c) (d_calls c).
  Definition set_depth (c : dconn) (x : nat) : dconn :=
    mkD (d_alive c) (d_want c) (d_hs c) (d_raw c) (d_hand c) (d_pend c) (d_retry c) (d_vers c) (d_cipher c) (d_epoch c) (d_deferred c) (d_ccs_done c) (d_dwell c) (d_delivered c) (d_freads c) (d_counted c) (d_n c) x (d_appended c) (d_iters c) (d_calls c).
  Definition set_appended (c : dconn) (x : bool) : dconn :=
    mkD (d_alive c) (d_want c) (d_hs c) (d_raw c) (d_hand c) (d_pend c) (d_retry c) (d_vers c) (d_cipher c) (d_epoch c) (d_deferred c) (d_ccs_done c) (d_dwell c) (d_delivered c) (d_freads c) (d_counted c) (d_n c) (d_depth c) x (d_iters c) (d_calls c).
  Definition set_iters (c : dconn) (x : nat) : dconn :=
    mkD (d_alive c) (d_want c) (d_hs c) (d_raw c) (d_hand c) (d_pend c) (d_retry c) (d_vers c) (d_cipher c) (d_epoch c) (d_deferred c) (d_ccs_done c) (d_dwell c) (d_delivered c) (d_freads c) (d_counted c) (d_n c) (d_depth c) (d_appended c) x (d_calls c).
  Definition set_calls (c : dconn) (x : nat) : dconn :=
    mkD (d_alive c) (d_want c) (d_hs c) (d_raw c) (d_hand c) (d_pend c) (d_retry c) (d_vers c) (d_cipher c) (d_epoch c) (d_deferred c) (d_ccs_done c) (d_dwell c) (d_delivered c) (d_freads c) (d_counted c) (d_n c) (d_depth c) (d_appended c) (d_iters c) x.

  Definition dinit (s : S) (w : want) : dconn :=
    mkD true w s [] [] [] 0 None false 0%N false false false 0 0 false 0 0 false 0 1.

  Definition dkill (c : dconn) : dconn := set_alive c false.

  Definition dretry_or_die (c : dconn) : dconn :=
    let r := Datatypes.S (d_retry c) in
    if maxUselessRecords <? r then dkill (set_retry c r) else set_retry c r.

  (* ---------------- readDatagram ---------------- *)
  (* c.rawInputBuf holds fewer than 13 bytes: the next datagram replaces it *)
  Definition load (c : dconn) (d : dgram) : dconn :=
    match d with
    | Foreign => set_depth c (Datatypes.S (d_depth c))          (* return c.readDatagram() *)
    | FromPeer b =>
        let raw := firstn dgramBuf b in
        let c := set_depth (set_raw c raw) 0 in
        if length raw <? dRecordHeaderLen then dkill c else c   (* "record too short" *)
    end.

  (* ---------------- one iteration of the loop in readRecordOrCCS ---------------- *)
  (* the record-type switch; c already has rawInputBuf advanced past the record (rest);
     idx = number of the record (for the oracles), hs_done = handshakeComplete,
     expect = the local expectChangeCipherSpec *)
  Definition p_alert (c : dconn) (data : bytes) : dconn * act :=
    match data with
    | [lvl; code] =>
        if (code =? 0)%N then (dkill c, Return)                               (* close_notify *)
        else if (lvl =? 1)%N then (dretry_or_die (set_raw c []), Continue)    (* warning: dropped *)
        else (dkill c, Return)
    | _ => (dkill c, Return)
    end.

  Definition p_ccs (c : dconn) (data rest : bytes) (idx : nat) (hs_done expect : bool) : dconn * act :=
    match data with
    | [1%N] =>
        if hs_done && d_dwell c && dwell_time idx && has_flight then (c, Continue) else
        let c := if hs_done && d_dwell c then set_dwell c false else c in
        if negb expect && negb (empty (d_hand c)) then (set_deferred c true, Return) else
        if negb expect then (c, Continue) else
        match on_ccs (d_hs c) with
        | None => (dkill c, Return)
        | Some _ =>
            let c := set_epoch (set_ccs_done (set_cipher c true) true) ((d_epoch c + 1) mod 65536)%N in
            if 0 <? length rest then (c, Continue) else (c, Return)
        end
    | _ => (dkill c, Return)
    end.

  Definition p_app (c : dconn) (data : bytes) (hs_done expect : bool) : dconn * act :=
    if negb hs_done || expect then (dkill c, Return) else
    let c := set_dwell c false in
    if length data =? 0 then (c, Continue)
    else (set_delivered c (d_delivered c + length data), Return).

  Definition p_hs (c : dconn) (data rest : bytes) (idx : nat) (hs_done expect : bool) : dconn * act :=
    if hs_done && d_dwell c && dwell_time idx then (c, Continue) else
    if length data =? 0 then (dkill c, Return) else
    if expect then (c, Continue) else
    if hs_done then (c, Continue) else
    let c := set_appended (set_hand c (d_hand c ++ data)) true in
    if (dRecordHeaderLen <=? length rest) && (nth0 rest 0 =? 22)%N then (c, Continue) else (c, Return).

  Definition dispatch (c : dconn) (typ : N) (data rest : bytes) (idx : nat) (hs_done expect : bool) : dconn * act :=
    if (typ =? 21)%N then p_alert c data
    else if (typ =? 20)%N then p_ccs c data rest idx hs_done expect
    else if (typ =? 23)%N then p_app c data hs_done expect
    else if (typ =? 22)%N then p_hs c data rest idx hs_done expect
    else (dkill c, Return).

  (* after the header checks: epoch filter, decryption, drops, size checks *)
  Definition p_body (c : dconn) (typ epoch : N) (body rest : bytes) (idx : nat) (hs_done expect : bool) : dconn * act :=
    if negb (epoch =? d_epoch c)%N then (set_raw c rest, Continue) else
    match dec (d_cipher c) typ body with
    | None => (dkill c, Return)
    | Some data =>
        if (typ =? 20)%N && negb expect && negb hs_done && empty (d_hand c) then (set_raw c rest, Continue) else
        if negb (fresh idx) then (set_raw c rest, Continue) else
        if maxPlaintext <? length data then (dkill c, Return) else
        if negb (d_cipher c) && (typ =? 23)%N then (dkill c, Return) else
        let c := if negb (typ =? 21)%N && negb (typ =? 20)%N && (0 <? length data) then set_retry c 0 else c in
        dispatch (set_raw c rest) typ data rest idx hs_done expect
    end.

  (* precondition: 13 <= |rawInputBuf| *)
  Definition process (c0 : dconn) : dconn * act :=
    let raw := d_raw c0 in
    let typ := nth0 raw 0 in
    let vers := b16 (nth0 raw 1) (nth0 raw 2) in
    let epoch := b16 (nth0 raw 3) (nth0 raw 4) in
    let n := N.to_nat (b16 (nth0 raw 11) (nth0 raw 12)) in
    let hs_done := want_eqb (d_want c0) WApp in
    let expect := want_eqb (d_want c0) WCcs && negb (d_ccs_done c0) in
    if match d_vers c0 with
       | Some v => negb (vers =? v)%N
       | None => (negb (typ =? 21)%N && negb (typ =? 22)%N) || (4096 <=? vers)%N
       end then (dkill c0, Return) else
    if maxCiphertext <? n then (dkill c0, Return) else
    if length raw <? dRecordHeaderLen + n then (dkill c0, Return) else
    p_body (set_n c0 (Datatypes.S (d_n c0))) typ epoch
           (firstn n (skipn dRecordHeaderLen raw)) (skipn (dRecordHeaderLen + n) raw) (d_n c0) hs_done expect.

  (* ---------------- readHandshake on what handBuf holds ---------------- *)
  (* a new readHandshake call *)
  Definition new_call (c : dconn) : dconn :=
    set_calls (set_counted (set_freads c 0) false) (Datatypes.S (d_calls c)).

  (* the handshake layer moves on after a message / after readChangeCipherSpec *)
  Definition move_on (c : dconn) (s : S) (w : want) (v : option N) : dconn :=
    let c := set_want (set_hs c s) w in
    let c := match v with Some x => set_vers c (Some x) | None => c end in
    match w with WMsg => new_call c | _ => c end.

  Fixpoint ddrive (fuel : nat) (c : dconn) : dconn :=
    match fuel with
    | O => c
    | Datatypes.S k =>
        if negb (d_alive c) then c else
        match d_want c with
        | WApp => c
        | WCcs =>
            (* readChangeCipherSpec: a ChangeCipherSpec consumed earlier is applied at once *)
            if d_deferred c then
              match on_ccs (d_hs c) with
              | None => dkill (set_deferred c false)
              | Some (s, w) =>
                  let c := set_epoch (set_cipher (set_deferred c false) true) ((d_epoch c + 1) mod 65536)%N in
                  ddrive k (move_on c s w None)
              end
            else c
        | WMsg =>
            (* top of the loop: fragmentReads++ *)
            let c := if d_counted c then c
                     else set_iters (set_counted (set_freads c (Datatypes.S (d_freads c))) true) (Datatypes.S (d_iters c)) in
            if maxHandshakeFragments <? d_freads c then dkill c else
            let h := d_hand c in
            if length h <? dHeaderLen then c else
            let blen := b24n (nth0 h 1) (nth0 h 2) (nth0 h 3) in
            let seq := b16 (nth0 h 4) (nth0 h 5) in
            let off := b24n (nth0 h 6) (nth0 h 7) (nth0 h 8) in
            let flen := b24n (nth0 h 9) (nth0 h 10) (nth0 h 11) in
            if maxHandshakeT <? blen then dkill c else
            if blen <? off + flen then dkill c else
            if length h <? dHeaderLen + flen then c else
            let f := mkFrag (nth0 h 0) blen seq off flen (firstn flen (skipn dHeaderLen h)) in
            let c := set_counted (set_hand c (skipn (dHeaderLen + flen) h)) false in
            match rh_step (d_pend c) f with
            | (p, Cont) => ddrive k (set_pend c p)
            | (p, RErr _) => dkill (set_pend c p)
            | (p, Msg m) =>
                match on_msg (d_hs c) m with
                | None => dkill (set_pend c p)
                | Some (s, w, v) => ddrive k (move_on (set_pend c p) s w v)
                end
            end
        end
    end.

  (* enough fuel for ddrive: every iteration that goes on takes at least a header off handBuf,
     or clears deferredCCS *)
  Definition dfuel (c : dconn) : nat := Datatypes.S (Datatypes.S (length (d_hand c))).

  (* readRecordOrCCS returned to its caller *)
  Definition dafter (c : dconn) : dconn :=
    if negb (d_alive c) then c else
    let c := set_appended c false in
    match d_want c with
    | WMsg => ddrive (dfuel c) c
    | WCcs =>
        if d_ccs_done c then
          match on_ccs (d_hs c) with
          | None => dkill c
          | Some (s, w) => let c := move_on (set_ccs_done c false) s w None in ddrive (dfuel c) c
          end
        else c
    | WApp => c
    end.

  Inductive dstop := DBlocked | DEnded | DOutOfFuel.

  (* the connection over a sequence of datagrams: one iteration = one trip through the loop of
     readRecordOrCCS (or one readDatagram) *)
  Fixpoint drun (fuel : nat) (c : dconn) (dgs : list dgram) : dconn * list dgram * dstop :=
    match fuel with
    | O => (c, dgs, DOutOfFuel)
    | Datatypes.S k =>
        if negb (d_alive c) then (c, dgs, DEnded) else
        if length (d_raw c) <? dRecordHeaderLen then
          if fix11 && d_appended c then drun k (dafter c) dgs else
          match dgs with
          | [] => (c, [], DBlocked)
          | d :: t => drun k (load c d) t
          end
        else
          match process c with
          | (c1, Continue) => drun k c1 dgs
          | (c1, Return) => drun k (dafter c1) dgs
          end
    end.

  (* bytes still to be consumed, counted so that every iteration lowers the measure *)
  Definition dg_size (d : dgram) : nat :=
    match d with Foreign => dRecordHeaderLen | FromPeer b => Nat.min dgramBuf (length b) + dRecordHeaderLen end.
  Definition dmeasure (c : dconn) (dgs : list dgram) : nat :=
    2 * (length (d_raw c) + list_sum (map dg_size dgs)) + (if d_appended c then 1 else 0).
End DMachine.

Arguments d_alive {S}.
Arguments d_want {S}.
Arguments d_hs {S}.
Arguments d_raw {S}.
Arguments d_hand {S}.
Arguments d_pend {S}.
Arguments d_retry {S}.
Arguments d_vers {S}.
Arguments d_cipher {S}.
Arguments d_epoch {S}.
Arguments d_deferred {S}.
Arguments d_ccs_done {S}.
Arguments d_dwell {S}.
Arguments d_delivered {S}.
Arguments d_freads {S}.
Arguments d_counted {S}.
Arguments d_n {S}.
Arguments d_depth {S}.
Arguments d_appended {S}.
Arguments d_iters {S}.
Arguments d_calls {S}.
Arguments dinit {S}.
