(* API-level model of one endpoint of a TLCP stream connection: tlcp/conn.go Conn.Read, Write,
   Close, CloseWrite, closeNotify, Handshake / HandshakeContext / handshakeContext (with the
   interrupter goroutine), halfConn.setErrorLocked, noteFatal / fatalError (the connection-wide
   latch c.fatal), readRecordOrCCS after the handshake, retryReadRecord, sendAlert(Locked), the
   activeCall closed bit.

   One endpoint is a state machine driven by a history of sequential calls.  The incoming
   transport is a list of events already decoded at record level (genuine records by content,
   a damaged record, the beginning of a record); `CArrive` and `CEnd` are the transport's own
   steps in a history (records arriving between two calls, the peer ending the transport on a
   record boundary or inside a record); `CGone` is the peer closing the transport in both
   directions.  Two buffers mirror the code: `s_raw` is what sits in
   c.rawInput (fetched from the transport), `s_wire` what has arrived but was not fetched; a
   fetch happens only when c.rawInput has run empty and takes everything that has arrived
   (readFromUntil reads at least bytes.MinRead beyond what it needs; the histories keep less
   than that pending).  The look-ahead in Conn.Read ("predict close-notify") inspects c.rawInput
   only, which is why the two are kept apart.

   The handshake protocol itself is abstracted (C08/C02/C07 analyse it): `plan` says how many
   steps the peer's script has, at which position records that arrived before the handshake ran
   are injected, and how an undisturbed run ends.  What is modelled exactly is how records that
   are not handshake messages, the end of the transport and the cancellation of the context are
   treated while the handshake runs, and how the result is latched.

   Concurrency is C13's subject: calls are sequential here (Close never sees a Write in flight). *)
From Coq Require Export NArith Arith List Lia Bool.
Export ListNotations.

Definition byte := N.

(* what the peer's records contain, as the receiver will see them *)
Inductive event :=
| EApp (d : list byte)            (* genuine application data record (d may be empty) *)
| EAlert (level code : N)         (* genuine alert record *)
| EHs                             (* genuine, non-empty handshake record *)
| ECcs                            (* genuine change_cipher_spec record *)
| EDamaged (typ : N)              (* well-framed record of outer type typ that does not authenticate *)
| EPartial (typ : N) (hdr : bool). (* at least one byte, but not all, of a record of outer type typ; hdr: the 5-byte header is complete *)

(* error classes an API call can return *)
Inductive eclass :=
| XEof                            (* io.EOF *)
| XUnexpectedEof                  (* io.ErrUnexpectedEOF *)
| XClosed                         (* net.ErrClosed / use of a closed transport *)
| XShutdown                       (* errShutdown: write after close_notify was sent *)
| XRemote (code : N)              (* "remote error": fatal alert received *)
| XLocal (code : N)               (* "local error": this endpoint sent the alert *)
| XCtx                            (* the context's error *)
| XEarlyCloseWrite                (* CloseWrite before the handshake completed *)
| XFirstRecord                    (* RecordHeaderError: first record does not look like a handshake *)
| XTooMany                        (* too many ignored records *)
| XInternal                       (* any other error of the handshake *)
| XBlock.                         (* not a result: the call would block waiting for the transport *)

(* what the endpoint puts on the wire, as far as this property looks at it *)
Inductive sitem :=
| SApp (d : list byte)
| SAlert (level code : N).

Record outcome := mkO {
  o_err : option eclass;
  o_n : nat;                      (* Write: bytes accepted *)
  o_data : list byte;             (* Read: bytes delivered *)
  o_sent : list sitem
}.

Inductive hstatus := HNotRun | HDone | HFailed (e : eclass).

Record plan := mkPlan {
  p_steps : nat;                  (* messages / flights the peer's script sends *)
  p_pos : nat;                    (* records that arrive before the handshake ran are injected after p_pos steps *)
  p_first : bool;                 (* ... which is before the peer's first handshake record *)
  p_res : option (eclass * list sitem)  (* None: an undisturbed run completes; Some: it fails like this *)
}.

Inductive call :=
| CRead (n : nat)
| CWrite (bs : list byte)
| CCloseWrite
| CClose
| CHandshake (cancel : option nat) (* None: Handshake(); Some k: HandshakeContext, cancelled once the peer has done k steps *)
| CArrive (evs : list event)
| CEnd (partial : option (N * bool)) (* the peer ends its sending direction: on a record boundary / inside a record (type, header complete) *)
| CGone.                           (* the peer closes the transport altogether: what this endpoint writes fails from now on *)

Record state := mkS {
  s_plan : plan;
  s_hs : hstatus;
  s_in_err : option eclass;
  s_out_err : option eclass;
  s_cns : bool;
  s_cn_err : option eclass;
  s_closed : bool;
  s_rawclosed : bool;
  s_input : list byte;
  s_hand : bool;
  s_retry : nat;
  s_raw : list event;
  s_wire : list event;
  s_ended : bool;
  s_peergone : bool;
  s_fatal : option eclass        (* c.fatal: the first fatal error of either half (connection-wide latch) *)
}.

Definition set_hs (st : state) (v : hstatus) : state :=
  mkS (s_plan st) v (s_in_err st) (s_out_err st) (s_cns st) (s_cn_err st) (s_closed st) (s_rawclosed st) (s_input st) (s_hand st) (s_retry st) (s_raw st) (s_wire st) (s_ended st) (s_peergone st) (s_fatal st).
Definition set_in_err (st : state) (v : option eclass) : state :=
  mkS (s_plan st) (s_hs st) v (s_out_err st) (s_cns st) (s_cn_err st) (s_closed st) (s_rawclosed st) (s_input st) (s_hand st) (s_retry st) (s_raw st) (s_wire st) (s_ended st) (s_peergone st) (s_fatal st).
Definition set_out_err (st : state) (v : option eclass) : state :=
  mkS (s_plan st) (s_hs st) (s_in_err st) v (s_cns st) (s_cn_err st) (s_closed st) (s_rawclosed st) (s_input st) (s_hand st) (s_retry st) (s_raw st) (s_wire st) (s_ended st) (s_peergone st) (s_fatal st).
Definition set_cns (st : state) (v : bool) : state :=
  mkS (s_plan st) (s_hs st) (s_in_err st) (s_out_err st) v (s_cn_err st) (s_closed st) (s_rawclosed st) (s_input st) (s_hand st) (s_retry st) (s_raw st) (s_wire st) (s_ended st) (s_peergone st) (s_fatal st).
Definition set_cn_err (st : state) (v : option eclass) : state :=
  mkS (s_plan st) (s_hs st) (s_in_err st) (s_out_err st) (s_cns st) v (s_closed st) (s_rawclosed st) (s_input st) (s_hand st) (s_retry st) (s_raw st) (s_wire st) (s_ended st) (s_peergone st) (s_fatal st).
Definition set_closed (st : state) (v : bool) : state :=
  mkS (s_plan st) (s_hs st) (s_in_err st) (s_out_err st) (s_cns st) (s_cn_err st) v (s_rawclosed st) (s_input st) (s_hand st) (s_retry st) (s_raw st) (s_wire st) (s_ended st) (s_peergone st) (s_fatal st).
Definition set_rawclosed (st : state) (v : bool) : state :=
  mkS (s_plan st) (s_hs st) (s_in_err st) (s_out_err st) (s_cns st) (s_cn_err st) (s_closed st) v (s_input st) (s_hand st) (s_retry st) (s_raw st) (s_wire st) (s_ended st) (s_peergone st) (s_fatal st).
Definition set_input (st : state) (v : list byte) : state :=
  mkS (s_plan st) (s_hs st) (s_in_err st) (s_out_err st) (s_cns st) (s_cn_err st) (s_closed st) (s_rawclosed st) v (s_hand st) (s_retry st) (s_raw st) (s_wire st) (s_ended st) (s_peergone st) (s_fatal st).
Definition set_hand (st : state) (v : bool) : state :=
  mkS (s_plan st) (s_hs st) (s_in_err st) (s_out_err st) (s_cns st) (s_cn_err st) (s_closed st) (s_rawclosed st) (s_input st) v (s_retry st) (s_raw st) (s_wire st) (s_ended st) (s_peergone st) (s_fatal st).
Definition set_retry (st : state) (v : nat) : state :=
  mkS (s_plan st) (s_hs st) (s_in_err st) (s_out_err st) (s_cns st) (s_cn_err st) (s_closed st) (s_rawclosed st) (s_input st) (s_hand st) v (s_raw st) (s_wire st) (s_ended st) (s_peergone st) (s_fatal st).
Definition set_raw (st : state) (v : list event) : state :=
  mkS (s_plan st) (s_hs st) (s_in_err st) (s_out_err st) (s_cns st) (s_cn_err st) (s_closed st) (s_rawclosed st) (s_input st) (s_hand st) (s_retry st) v (s_wire st) (s_ended st) (s_peergone st) (s_fatal st).
Definition set_wire (st : state) (v : list event) : state :=
  mkS (s_plan st) (s_hs st) (s_in_err st) (s_out_err st) (s_cns st) (s_cn_err st) (s_closed st) (s_rawclosed st) (s_input st) (s_hand st) (s_retry st) (s_raw st) v (s_ended st) (s_peergone st) (s_fatal st).
Definition set_ended (st : state) (v : bool) : state :=
  mkS (s_plan st) (s_hs st) (s_in_err st) (s_out_err st) (s_cns st) (s_cn_err st) (s_closed st) (s_rawclosed st) (s_input st) (s_hand st) (s_retry st) (s_raw st) (s_wire st) v (s_peergone st) (s_fatal st).
Definition set_peergone (st : state) (v : bool) : state :=
  mkS (s_plan st) (s_hs st) (s_in_err st) (s_out_err st) (s_cns st) (s_cn_err st) (s_closed st) (s_rawclosed st) (s_input st) (s_hand st) (s_retry st) (s_raw st) (s_wire st) (s_ended st) v (s_fatal st).
Definition set_fatal (st : state) (v : option eclass) : state :=
  mkS (s_plan st) (s_hs st) (s_in_err st) (s_out_err st) (s_cns st) (s_cn_err st) (s_closed st) (s_rawclosed st) (s_input st) (s_hand st) (s_retry st) (s_raw st) (s_wire st) (s_ended st) (s_peergone st) v.

Definition init (p : plan) : state :=
  mkS p HNotRun None None false None false false [] false 0 [] [] false false None.

Definition max_useless : nat := 16.

(* ---------------- sending ---------------- *)
(* c.conn.Write succeeds unless this endpoint closed its transport or the peer is gone *)
Definition tx_dead (st : state) : bool := s_rawclosed st || s_peergone st.
Definition tx (st : state) (it : sitem) : list sitem := if tx_dead st then [] else [it].

(* sendAlertLocked: close_notify and no_renegotiation go out at warning level; every alert but
   close_notify latches a "local error" on the write half, whatever was there *)
Definition alert_level (code : N) : N := if (code =? 100)%N || (code =? 0)%N then 1%N else 2%N.
Definition send_alert (st : state) (code : N) : state * list sitem :=
  (set_out_err st (Some (XLocal code)), tx st (SAlert (alert_level code) code)).

(* noteFatal: the first fatal error of either half becomes the connection's error.  io.EOF
   (close_notify or a clean end of the transport), errShutdown and timeouts (here: a call that
   would block) are not fatal; fatalError is `s_fatal` *)
Definition note_fatal (st : state) (e : option eclass) : state :=
  match e with
  | None | Some XEof | Some XShutdown | Some XBlock => st
  | Some x => match s_fatal st with
              | None => set_fatal st (Some x)
              | Some _ => st
              end
  end.

(* ---------------- readRecordOrCCS after the handshake ---------------- *)
Inductive scanres :=
| ScEmpty (retry : nat)                                   (* no complete record left *)
| ScPartial (rest : list event) (retry : nat)             (* the next record is incomplete *)
| ScApp (d : list byte) (rest : list event)               (* c.input set *)
| ScHs (rest : list event)                                (* c.hand grows *)
| ScErr (e : eclass) (alert : option N) (rest : list event) (retry : nat).

(* readRecordOrCCS + retryReadRecord over the records at hand *)
Fixpoint scan (evs : list event) (retry : nat) : scanres :=
  match evs with
  | [] => ScEmpty retry
  | EPartial _ _ :: _ => ScPartial evs retry
  | EDamaged _ :: r => ScErr (XLocal 20) (Some 20%N) r retry
  | ECcs :: r => ScErr (XLocal 10) (Some 10%N) r retry
  | EHs :: r => ScHs r
  | EApp [] :: r =>
      if Nat.ltb max_useless (S retry) then ScErr XTooMany (Some 10%N) r (S retry) else scan r (S retry)
  | EApp d :: r => ScApp d r
  | EAlert l c :: r =>
      if (c =? 0)%N then ScErr XEof None r retry
      else if (l =? 1)%N then
        (if Nat.ltb max_useless (S retry) then ScErr XTooMany (Some 10%N) r (S retry) else scan r (S retry))
      else if (l =? 2)%N then ScErr (XRemote c) None r retry
      else ScErr (XLocal 10) (Some 10%N) r retry
  end.

(* one c.readRecord(): state, error, alerts sent *)
Definition read_record (st : state) : state * option eclass * list sitem :=
  match s_in_err st with
  | Some e => (st, Some e, [])
  | None =>
      let '(res, wire') :=
        match scan (s_raw st) (s_retry st) with
        | ScEmpty r => (scan (s_wire st) r, [])            (* c.rawInput ran empty: fetch *)
        | x => (x, s_wire st)
        end in
      match res with
      | ScEmpty r =>
          let st1 := set_retry (set_wire (set_raw st []) wire') r in
          if s_ended st then (set_in_err st1 (Some XEof), Some XEof, [])
          else (st1, Some XBlock, [])
      | ScPartial rest r =>
          let st1 := set_retry (set_wire (set_raw st rest) wire') r in
          if s_ended st then (set_in_err st1 (Some XUnexpectedEof), Some XUnexpectedEof, [])
          else (st1, Some XBlock, [])
      | ScApp d rest =>
          (set_input (set_retry (set_wire (set_raw st rest) wire') 0) d, None, [])
      | ScHs rest =>
          (set_hand (set_retry (set_wire (set_raw st rest) wire') 0) true, None, [])
      | ScErr e a rest r =>
          let st1 := set_retry (set_wire (set_raw st rest) wire') r in
          let '(st2, sent) := match a with Some c => send_alert st1 c | None => (st1, []) end in
          (set_in_err st2 (Some e), Some e, sent)
      end
  end.

(* ---------------- the handshake ---------------- *)
Inductive hsres :=
| HsClear                                     (* every record at hand was ignored *)
| HsPartial
| HsFail (e : eclass) (alert : option N).

(* records that are not the expected handshake message, met by readRecordOrCCS while the
   handshake runs (handshakeComplete = false) *)
Fixpoint hs_scan (evs : list event) (first : bool) (retry : nat) : hsres :=
  match evs with
  | [] => HsClear
  | EPartial t hdr :: _ =>
      (* the first-record check looks at a complete header before the body is read *)
      if first && hdr && negb ((t =? 21)%N || (t =? 22)%N) then HsFail XFirstRecord None else HsPartial
  | EApp _ :: _ => if first then HsFail XFirstRecord None else HsFail (XLocal 10) (Some 10%N)
  | ECcs :: _ => if first then HsFail XFirstRecord None else HsFail (XLocal 10) (Some 10%N)
  | EHs :: _ => HsFail (XLocal 10) (Some 10%N)
  | EDamaged _ :: _ => HsFail (XLocal 20) (Some 20%N)
  | EAlert l c :: r =>
      if (c =? 0)%N then HsFail XEof None
      else if (l =? 1)%N then
        (if Nat.ltb max_useless (S retry) then HsFail XTooMany (Some 10%N) else hs_scan r first (S retry))
      else if (l =? 2)%N then HsFail (XRemote c) None
      else HsFail (XLocal 10) (Some 10%N)
  end.

Definition hs_fail (st : state) (e : eclass) (sent : list sitem) : state * option eclass * list sitem :=
  (set_wire (set_raw (set_hs st (HFailed e)) []) [], Some e, sent).

(* the interrupter closes the transport; the handshake's own (latched) error is the failed read *)
Definition hs_cancelled (st : state) : state * option eclass * list sitem :=
  (set_rawclosed (set_wire (set_raw (set_hs st (HFailed XClosed)) []) []) true, Some XCtx, []).

(* c.handshakeFn under handshakeContext, first run *)
Definition hs_run (st : state) (cancel : option nat) : state * option eclass * list sitem :=
  let p := s_plan st in
  let before := match cancel with Some k => Nat.leb k (p_pos p) && Nat.ltb k (p_steps p) | None => false end in
  let during := match cancel with Some k => Nat.ltb k (p_steps p) | None => false end in
  if s_rawclosed st then hs_fail st XClosed []
  else if before then hs_cancelled st
  else
    match hs_scan (s_raw st ++ s_wire st) (p_first p) 0 with
    | HsFail e a =>
        hs_fail st e (match a with Some c => tx st (SAlert (alert_level c) c) | None => [] end)
    | HsPartial =>
        if s_ended st then hs_fail st XUnexpectedEof []
        else if during then hs_cancelled st
        else (st, Some XBlock, [])
    | HsClear =>
        if s_ended st then hs_fail st XEof []
        else if during then hs_cancelled st
        else match p_res p with
             | Some (e, sent) => hs_fail st e sent
             | None => (set_retry (set_wire (set_raw (set_hs st HDone) []) []) 0, None, [])
             end
    end.

(* handshakeContext: fast path, latched error, or the first run *)
Definition handshake (st : state) (cancel : option nat) : state * option eclass * list sitem :=
  match s_hs st with
  | HDone => (st, None, [])
  | HFailed e => (st, Some e, [])
  | HNotRun => hs_run st cancel
  end.

(* ---------------- the calls ---------------- *)
Definition fail (e : eclass) (sent : list sitem) : outcome := mkO (Some e) 0 [] sent.

Definition raw_head_is_alert (st : state) : bool :=
  match s_raw st with
  | EAlert _ _ :: _ => true
  | EDamaged t :: _ => (t =? 21)%N
  | EPartial t _ :: _ => (t =? 21)%N
  | _ => false
  end.

(* what Conn.Read does around each of its two c.readRecord() calls: an error is noted on the
   connection and returned; a handshake record (c.hand.Len() > 0: renegotiation) is rejected on
   the spot with no_renegotiation, latched on the read half and noted on the connection *)
Definition read_checked (st : state) : state * option eclass * list sitem :=
  let '(st1, e, sent) := read_record st in
  match e with
  | Some x => (note_fatal st1 (Some x), Some x, sent)
  | None =>
      if s_hand st1 then
        let '(st2, sent2) := send_alert st1 100 in
        (note_fatal (set_in_err st2 (Some (XLocal 100))) (Some (XLocal 100)), Some (XLocal 100), sent ++ sent2)
      else (st1, None, sent)
  end.

(* the loop `for c.input.Len() == 0 { readRecord; noteFatal; if c.hand.Len() > 0 { no_renegotiation } }` *)
Definition fill (st : state) : state * option eclass * list sitem :=
  match s_input st with
  | _ :: _ => (st, None, [])
  | [] => read_checked st
  end.

Definition do_read (st : state) (n : nat) : state * outcome :=
  if s_closed st then (st, fail XClosed []) else
  let '(st0, he, sent0) := handshake st None in
  match he with
  | Some e => (st0, fail e sent0)
  | None =>
      if Nat.eqb n 0 then (st0, mkO None 0 [] sent0) else
      (* a fatal error of either half: nothing is delivered any more, buffered plaintext included *)
      match s_fatal st0 with
      | Some e => (st0, fail e sent0)
      | None =>
          let '(st1, fe, sent1) := fill st0 in
          match fe with
          | Some e => (st1, fail e (sent0 ++ sent1))
          | None =>
              let d := firstn n (s_input st1) in
              let st2 := set_input st1 (skipn n (s_input st1)) in
              if negb (Nat.eqb (length d) 0) && Nat.eqb (length (s_input st2)) 0 && raw_head_is_alert st2 then
                (* the look-ahead returns (n, err): the bytes together with the error *)
                let '(st3, pe, sent3) := read_checked st2 in
                (st3, mkO pe 0 d (sent0 ++ sent1 ++ sent3))
              else (st2, mkO None 0 d (sent0 ++ sent1))
          end
      end
  end.

Definition do_write (st : state) (bs : list byte) : state * outcome :=
  if s_closed st then (st, fail XClosed []) else
  let '(st0, he, sent0) := handshake st None in
  match he with
  | Some e => (st0, fail e sent0)
  | None =>
      match s_out_err st0 with
      | Some e => (st0, fail e sent0)
      | None =>
          (* a fatal error noted by the read half: nothing is sent any more *)
          match s_fatal st0 with
          | Some e => (st0, fail e sent0)
          | None =>
              if s_cns st0 then (st0, fail XShutdown sent0)
              else match bs with
                   | [] => (st0, mkO None 0 [] sent0)
                   | _ => if tx_dead st0 then (note_fatal (set_out_err st0 (Some XClosed)) (Some XClosed), fail XClosed sent0)
                          else (st0, mkO None (length bs) [] (sent0 ++ [SApp bs]))
                   end
          end
      end
  end.

(* closeNotify: sent once, its result is remembered *)
Definition close_notify (st : state) : state * option eclass * list sitem :=
  if s_cns st then (st, s_cn_err st, [])
  else
    let e := if tx_dead st then Some XClosed else None in
    (set_cn_err (set_cns st true) e, e, tx st (SAlert 1 0)).

Definition do_closewrite (st : state) : state * outcome :=
  match s_hs st with
  | HDone => let '(st1, e, sent) := close_notify st in (st1, mkO e 0 [] sent)
  | _ => (st, fail XEarlyCloseWrite [])
  end.

Definition do_close (st : state) : state * outcome :=
  if s_closed st then (st, fail XClosed []) else
  let st0 := set_closed st true in
  let '(st1, e, sent) := match s_hs st0 with
                         | HDone => close_notify st0
                         | _ => (st0, None, [])
                         end in
  (set_rawclosed st1 true, mkO e 0 [] sent).

Definition do_handshake (st : state) (cancel : option nat) : state * outcome :=
  let '(st1, e, sent) := handshake st cancel in (st1, mkO e 0 [] sent).

Definition step (st : state) (c : call) : state * outcome :=
  match c with
  | CRead n => do_read st n
  | CWrite bs => do_write st bs
  | CCloseWrite => do_closewrite st
  | CClose => do_close st
  | CHandshake k => do_handshake st k
  | CArrive evs => (if s_ended st then st else set_wire st (s_wire st ++ evs), mkO None 0 [] [])
  | CEnd p => (if s_ended st then st
               else set_ended (set_wire st (s_wire st ++ match p with Some (t, hdr) => [EPartial t hdr] | None => [] end)) true,
               mkO None 0 [] [])
  | CGone => (set_peergone (if s_ended st then st else set_ended st true) true, mkO None 0 [] [])
  end.

(* a history: the outcomes of its calls, and the state it leaves *)
Fixpoint run (st : state) (h : list call) : list outcome :=
  match h with
  | [] => []
  | c :: t => let '(st', o) := step st c in o :: run st' t
  end.

Definition exec (st : state) (h : list call) : state :=
  fold_left (fun s c => fst (step s c)) h st.

(* ---------------- vocabulary of the property, over histories ---------------- *)
(* the records that have arrived (arrivals after the end of the transport do not exist) *)
Fixpoint arrived_from (ended : bool) (h : list call) : list event :=
  match h with
  | [] => []
  | CArrive evs :: t => if ended then arrived_from ended t else evs ++ arrived_from ended t
  | CEnd _ :: t => arrived_from true t
  | CGone :: t => arrived_from true t
  | _ :: t => arrived_from ended t
  end.
Definition arrived (h : list call) : list event := arrived_from false h.

(* how the transport ended, if it did *)
Fixpoint ended_how (h : list call) : option (option (N * bool)) :=
  match h with
  | [] => None
  | CEnd p :: _ => Some p
  | CGone :: _ => Some None
  | _ :: t => ended_how t
  end.

Definition is_close_notify (ev : event) : bool :=
  match ev with EAlert _ c => (c =? 0)%N | _ => false end.

(* application bytes of the records preceding the first close_notify *)
Fixpoint app_before_close (evs : list event) : list byte :=
  match evs with
  | [] => []
  | EApp d :: r => d ++ app_before_close r
  | ev :: r => if is_close_notify ev then [] else app_before_close r
  end.

Definition delivered (os : list outcome) : list byte := concat (map o_data os).

Fixpoint sent_app (l : list sitem) : bool :=
  match l with
  | [] => false
  | SApp _ :: _ => true
  | _ :: t => sent_app t
  end.
