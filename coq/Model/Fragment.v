(* Model of dtlcp/fragment.go (fragmentBuffer: newFragmentBuffer / addFragment / complete /
   assembled), of the fragment path of dtlcp/conn.go readHandshake, and of the sender-side
   splitting in dtlcp/conn.go writeHandshakeRecord.
   Bytes are N (< 256); indices and lengths are nat (messages are <= 65536 + 12 bytes).
   The received-bitmask is modelled byte by byte exactly as the Go code keeps it.
   Not modelled: the time-based cleanupStaleFragments (it only removes buffers).        *)
From Coq Require Export NArith Arith List Lia Bool.
Export ListNotations.

Definition byte := N.

(* ---------- fragmentBuffer ---------- *)
Record fragbuf := mkFB { fb_n : nat; fb_data : list byte; fb_recv : list byte }.

Definition new_buf (total : nat) : fragbuf :=
  let n := Nat.max 1 total in
  mkFB n (repeat 0%N n) (repeat 0%N ((n + 7) / 8)).

Fixpoint upd_nth {A} (i : nat) (f : A -> A) (l : list A) : list A :=
  match l, i with
  | [], _ => []
  | x :: t, O => f x :: t
  | x :: t, S j => x :: upd_nth j f t
  end.

(* fb.received[i>>3] |= 1 << (i & 7) *)
Definition set_bit (recv : list byte) (i : nat) : list byte :=
  upd_nth (i / 8) (fun b => N.lor b (N.shiftl 1 (N.of_nat (i mod 8)))) recv.

Fixpoint set_bits (recv : list byte) (off len : nat) : list byte :=
  match len with
  | O => recv
  | S k => set_bits (set_bit recv off) (S off) k
  end.

(* copy(dst[off:off+len], src): copies min(len, |src|) bytes *)
Fixpoint copy_at (dst : list byte) (off : nat) (src : list byte) : list byte :=
  match dst, off with
  | [], _ => []
  | d :: t, S o => d :: copy_at t o src
  | d :: t, O => match src with [] => d :: t | s :: st => s :: copy_at t O st end
  end.

Definition add_fragment (fb : fragbuf) (off len : nat) (frag : list byte) : fragbuf * bool :=
  if Nat.ltb (fb_n fb) (off + len) then (fb, false)
  else (mkFB (fb_n fb) (copy_at (fb_data fb) off (firstn len frag)) (set_bits (fb_recv fb) off len), true).

Definition complete (fb : fragbuf) : bool :=
  let full := fb_n fb / 8 in
  let rem := fb_n fb mod 8 in
  forallb (fun b => N.eqb b 255) (firstn full (fb_recv fb)) &&
  (if Nat.eqb rem 0 then true
   else let mask := (N.shiftl 1 (N.of_nat rem) - 1)%N in
        N.eqb (N.land (nth full (fb_recv fb) 0%N) mask) mask).

Definition assembled (fb : fragbuf) : list byte := fb_data fb.

(* ---------- handshake fragments as readHandshake sees them in handBuf ---------- *)
Record frag := mkFrag {
  f_type : byte; f_blen : nat; f_seq : N; f_off : nat; f_len : nat; f_body : list byte }.

Definition u24 (n : nat) : list byte :=
  let x := N.of_nat n in [((x / 65536) mod 256)%N; ((x / 256) mod 256)%N; (x mod 256)%N].
Definition u16 (x : N) : list byte := [((x / 256) mod 256)%N; (x mod 256)%N].

(* 12-byte header *)
Definition hs_header (typ : byte) (blen : nat) (seq : N) (off len : nat) : list byte :=
  typ :: u24 blen ++ u16 seq ++ u24 off ++ u24 len.

Definition frag_bytes (f : frag) : list byte :=
  hs_header (f_type f) (f_blen f) (f_seq f) (f_off f) (f_len f) ++ f_body f.

Definition maxHandshake : nat := 65536.

Inductive rh_out :=
| Cont                       (* fragment stored, message still incomplete: loop again *)
| Msg (bytes : list byte)    (* a whole message handed to the unmarshaler / transcript *)
| RErr (alert : N).          (* fatal: 80 internal_error, 50 decode_error, 10 unexpected_message *)

Definition pending := list (N * fragbuf).

Fixpoint plookup (k : N) (p : pending) : option fragbuf :=
  match p with [] => None | (k', v) :: t => if N.eqb k k' then Some v else plookup k t end.
Fixpoint premove (k : N) (p : pending) : pending :=
  match p with [] => [] | (k', v) :: t => if N.eqb k k' then premove k t else (k', v) :: premove k t end.
Definition pinsert (k : N) (v : fragbuf) (p : pending) : pending := (k, v) :: premove k p.

(* one iteration of the readHandshake loop on the fragment at the head of handBuf
   (|f_body f| = f_len f is guaranteed by handBuf.Next(12 + fragLen)) *)
Definition rh_step (pend : pending) (f : frag) : pending * rh_out :=
  if Nat.ltb maxHandshake (f_blen f) then (pend, RErr 80)
  else if Nat.ltb (f_blen f) (f_off f + f_len f) then (pend, RErr 50)
  else if Nat.ltb (f_len f) (f_blen f) || Nat.ltb 0 (f_off f) then
    let fb := match plookup (f_seq f) pend with Some fb => fb | None => new_buf (f_blen f) end in
    let fb' := fst (add_fragment fb (f_off f) (f_len f) (f_body f)) in
    if complete fb'
    then (premove (f_seq f) pend,
          Msg (hs_header (f_type f) (f_blen f) (f_seq f) 0 (f_blen f) ++ assembled fb'))
    else (pinsert (f_seq f) fb' pend, Cont)
  else (pend, Msg (frag_bytes f)).

(* the loop: at most maxHandshakeFragments = 256 iterations per message read *)
Fixpoint rh_loop (fuel : nat) (pend : pending) (fs : list frag) : pending * option rh_out * list frag :=
  match fuel with
  | O => (pend, Some (RErr 10), fs)
  | S k =>
      match fs with
      | [] => (pend, None, [])          (* blocked waiting for more input *)
      | f :: t =>
          match rh_step pend f with
          | (p', Cont) => rh_loop k p' t
          | (p', o) => (p', Some o, t)
          end
      end
  end.
Definition read_handshake (pend : pending) (fs : list frag) := rh_loop 256 pend fs.

(* ---------- sender: writeHandshakeRecord splitting ---------- *)
(* body split into consecutive pieces of at most mf bytes, starting at offset off *)
Fixpoint split_from (fuel : nat) (mf : nat) (typ : byte) (blen : nat) (seq : N) (off : nat)
         (rest : list byte) : list frag :=
  match fuel with
  | O => []
  | S k =>
      match rest with
      | [] => []
      | _ => let piece := firstn mf rest in
             mkFrag typ blen seq off (length piece) piece ::
             split_from k mf typ blen seq (off + length piece) (skipn mf rest)
      end
  end.

(* maxPayload = record payload limit; a message that fits is sent whole, otherwise it is
   cut into fragments whose bodies are at most maxPayload - 12 bytes *)
Definition send_fragments (max_payload : nat) (typ : byte) (seq : N) (body : list byte) : option (list frag) :=
  let blen := length body in
  if Nat.leb (12 + blen) max_payload then Some [mkFrag typ blen seq 0 blen body]
  else if Nat.leb max_payload 12 then None       (* "PMTU too small for handshake fragment header" *)
  else Some (split_from (S blen) (max_payload - 12) typ blen seq 0 body).

(* the unfragmented encoding (what both transcripts hash) *)
Definition whole (typ : byte) (seq : N) (body : list byte) : list byte :=
  hs_header typ (length body) seq 0 (length body) ++ body.
