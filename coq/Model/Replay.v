(* Model of dtlcp/replay.go (replayWindow.check / newReplayWindow) and of the window
   size selection in dtlcp/dtlcp.go, dtlcp/conn.go (Config.ReplayWindow).
   uint64 arithmetic is written out: the bitmap is reduced mod 2^64 after every
   operation, a Go shift by >= 64 yields 0.  Sequence numbers are < 2^48 in the
   code (uint48 header field); N has no wrap so the model needs no such bound. *)
From Coq Require Export NArith ZArith List Lia Bool.
Export ListNotations.
Open Scope N_scope.

Definition M64 : N := 2 ^ 64.
Definition u64 (x : N) : N := x mod M64.
Definition shl64 (x d : N) : N := if 64 <=? d then 0 else u64 (N.shiftl x d).

Record win := mkWin { right : N; size : N; bitmap : N }.

(* newReplayWindow: floor 32; the configured size is kept as it is *)
Definition new_window (sz : N) : win := mkWin 0 (if sz <? 32 then 32 else sz) 0.

(* check caps the size it uses at 64 (the bitmap has 64 bits) *)
Definition eff_size (w : win) : N := if 64 <? size w then 64 else size w.

(* Config.ReplayWindow (an int): <= 0 selects the default 64 *)
Definition cfg_size (cfg : Z) : N := if (cfg <=? 0)%Z then 64 else Z.to_N cfg.
Definition conn_window (cfg : Z) : win := new_window (cfg_size cfg).
Definition w_eff (cfg : Z) : N := eff_size (conn_window cfg).

Definition check (w : win) (seq : N) : win * bool :=
  if right w <? seq then
    let diff := seq - right w in
    let bm := if eff_size w <=? diff then 0 else shl64 (bitmap w) diff in
    (mkWin seq (size w) (u64 (N.lor bm 1)), true)
  else
    let diff := right w - seq in
    if eff_size w <=? diff then (w, false)
    else
      let bit := shl64 1 diff in
      if negb (N.land (bitmap w) bit =? 0) then (w, false)
      else (mkWin (right w) (size w) (u64 (N.lor (bitmap w) bit)), true).

Fixpoint run (w : win) (seqs : list N) : win * list bool :=
  match seqs with
  | [] => (w, [])
  | s :: t => let '(w1, b) := check w s in
              let '(w2, bs) := run w1 t in (w2, b :: bs)
  end.

(* ---- set-based specification: the accepted numbers so far (a list used as a set),
        window width W.  A number is accepted iff it was not accepted before and it is
        newer than everything accepted or less than W behind the newest. ---- *)
Fixpoint maxl (l : list N) : N := match l with [] => 0 | x :: t => N.max x (maxl t) end.
Definition mem (s : N) (l : list N) : bool := existsb (N.eqb s) l.

Definition spec_check (W : N) (acc : list N) (s : N) : list N * bool :=
  if mem s acc then (acc, false)
  else if (maxl acc <? s) || (maxl acc - s <? W) then (s :: acc, true)
  else (acc, false).

Fixpoint spec_run (W : N) (acc : list N) (seqs : list N) : list N * list bool :=
  match seqs with
  | [] => (acc, [])
  | s :: t => let '(a1, b) := spec_check W acc s in
              let '(a2, bs) := spec_run W a1 t in (a2, b :: bs)
  end.

(* the sequence numbers that were accepted, in order *)
Fixpoint accepted (seqs : list N) (bs : list bool) : list N :=
  match seqs, bs with
  | s :: t, true :: bt => s :: accepted t bt
  | _ :: t, false :: bt => accepted t bt
  | _, _ => []
  end.
