(* The twenty decoders / encoders of CodecT.v and CodecD.v under one signature, so that the
   property theorems can quantify over the stack and the message type.  No proofs here. *)
From V Require Export Model.Codec Model.CodecT Model.CodecD Model.CodecSpec.
Open Scope N_scope.

Inductive fields :=
| FNone                                        (* serverHelloDone *)
| FBlob (b : bytes)                            (* finished, serverKeyExchange, clientKeyExchange, certificateVerify *)
| FCert (cs : list bytes)
| FCReq (types : bytes) (cas : list bytes)
| FHVR (ver : N) (cookie : bytes)
| FSH (m : shello)
| FCH (m : chello).

Definition h0 : dh := mkDH 0 0 0.

Definition rmap {A B} (f : A -> B) (r : res A) : res B :=
  match r with Ok a => Ok (f a) | Reject => Reject | Panic s => Panic s end.

Definition decode (st : stack) (m : mt) (bs : bytes) : res (dh * fields) :=
  match st, m with
  | ST, mFIN => rmap (fun v => (h0, FBlob v)) (T_fin_dec bs)
  | ST, mSHD => rmap (fun _ => (h0, FNone)) (T_shd_dec bs)
  | ST, mCKX => rmap (fun v => (h0, FBlob v)) (T_ckx_dec bs)
  | ST, mSKX => rmap (fun v => (h0, FBlob v)) (T_skx_dec bs)
  | ST, mCV => rmap (fun v => (h0, FBlob v)) (T_cv_dec bs)
  | ST, mCERT => rmap (fun v => (h0, FCert v)) (T_cert_dec bs)
  | ST, mCREQ => rmap (fun v => (h0, FCReq (fst v) (snd v))) (T_creq_dec bs)
  | ST, mSH => rmap (fun v => (h0, FSH v)) (T_sh_dec bs)
  | ST, mCH => rmap (fun v => (h0, FCH v)) (T_ch_dec bs)
  | ST, mHVR => Reject                           (* tlcp has no HelloVerifyRequest *)
  | SD, mFIN => rmap (fun v => (fst v, FBlob (snd v))) (D_fin_dec bs)
  | SD, mSHD => rmap (fun v => (fst v, FNone)) (D_shd_dec bs)
  | SD, mCKX => rmap (fun v => (fst v, FBlob (snd v))) (D_ckx_dec bs)
  | SD, mSKX => rmap (fun v => (fst v, FBlob (snd v))) (D_skx_dec bs)
  | SD, mCV => rmap (fun v => (fst v, FBlob (snd v))) (D_cv_dec bs)
  | SD, mCERT => rmap (fun v => (fst v, FCert (snd v))) (D_cert_dec bs)
  | SD, mCREQ => rmap (fun v => (fst v, FCReq (fst (snd v)) (snd (snd v)))) (D_creq_dec bs)
  | SD, mHVR => rmap (fun v => (fst v, FHVR (fst (snd v)) (snd (snd v)))) (D_hvr_dec bs)
  | SD, mSH => rmap (fun v => (fst v, FSH (snd v))) (D_sh_dec bs)
  | SD, mCH => rmap (fun v => (fst v, FCH (snd v))) (D_ch_dec bs)
  end.

Definition encode (st : stack) (m : mt) (h : dh) (f : fields) : option bytes :=
  match st, m, f with
  | ST, mFIN, FBlob v => Some (T_fin_enc v)
  | ST, mSHD, FNone => Some (T_shd_enc tt)
  | ST, mCKX, FBlob v => Some (T_ckx_enc v)
  | ST, mSKX, FBlob v => Some (T_skx_enc v)
  | ST, mCV, FBlob v => Some (T_cv_enc v)
  | ST, mCERT, FCert v => Some (T_cert_enc v)
  | ST, mCREQ, FCReq t c => Some (T_creq_enc (t, c))
  | ST, mSH, FSH v => Some (T_sh_enc v)
  | ST, mCH, FCH v => Some (T_ch_enc v)
  | SD, mFIN, FBlob v => Some (D_fin_enc (h, v))
  | SD, mSHD, FNone => Some (D_shd_enc (h, tt))
  | SD, mCKX, FBlob v => Some (D_ckx_enc (h, v))
  | SD, mSKX, FBlob v => Some (D_skx_enc (h, v))
  | SD, mCV, FBlob v => Some (D_cv_enc (h, v))
  | SD, mCERT, FCert v => Some (D_cert_enc (h, v))
  | SD, mCREQ, FCReq t c => Some (D_creq_enc (h, (t, c)))
  | SD, mHVR, FHVR v c => Some (D_hvr_enc (h, (v, c)))
  | SD, mSH, FSH v => Some (D_sh_enc (h, v))
  | SD, mCH, FCH v => Some (D_ch_enc (h, v))
  | _, _, _ => None
  end.

(* field values within the ranges of the standard's vectors *)
Definition wf (st : stack) (m : mt) (h : dh) (f : fields) : Prop :=
  match st with ST => h = h0 | SD => wf_dh h end /\
  match m, f with
  | mFIN, FBlob b => wf_body b /\ (st = SD -> len b <= 65536)   (* dtlcp refuses a Finished body above maxHandshake *)
  | mSKX, FBlob b | mCKX, FBlob b => wf_body b
  | mCV, FBlob b => wf_sig b
  | mSHD, FNone => True
  | mCERT, FCert cs => wf_certs cs
  | mCREQ, FCReq t cas => wf_creq (t, cas)
  | mHVR, FHVR v c => st = SD /\ wf_hvr (v, c)
  | mSH, FSH x => wf_sh x
  | mCH, FCH x => wf_ch (match st with SD => true | ST => false end) x
  | _, _ => False
  end.

(* the header fields decoding the encoding of (h, f) yields: tlcp has none; the dtlcp decoder
   reports message_seq as given, fragment_offset 0 and fragment_length = body length (marshal
   writes fragment_length = length when the stored fragment_length is 0 = "whole message",
   which wf requires) *)
Definition decoded_hdr (st : stack) (bs : bytes) (h : dh) : dh :=
  match st with ST => h0 | SD => mkDH (dh_seq h) 0 (len bs - 12) end.
