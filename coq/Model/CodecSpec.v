(* Property-level vocabulary of C14, independent of the decoders of CodecT.v / CodecD.v:
   - framing: what readHandshake guarantees about the bytes it hands to unmarshal;
   - well-formedness of field values (the ranges the vectors of the standard allow);
   - [strict]: a length walk over the bytes of a message that checks that every inner length
     agrees with the enclosing one and that nothing trails (written with its own [cut], it
     does not call the model decoders);
   - [canon_*]: parsers that accept exactly the encodings the library itself emits
     (fixed extension order, each extension at most once, no unknown extension or identifier
     type, ...); [no_ignored_*]: no extension / identifier / name / status type that the
     decoders skip.
   No proofs in this file. *)
From V Require Export Model.Codec Model.CodecT Model.CodecD.
Open Scope N_scope.

Inductive stack := ST | SD.
Definition hlen (st : stack) : N := match st with ST => 4 | SD => 12 end.
Definition body_of (st : stack) (bs : bytes) : bytes := skipn (N.to_nat (hlen st)) bs.

(* ---------- framing ---------- *)
(* the length field of the header equals the number of bytes that follow the header *)
Definition outer_ok (st : stack) (bs : bytes) : bool :=
  match bs with
  | _ :: a :: b :: c :: _ => (hlen st <=? len bs) && (be24 a b c =? len bs - hlen st)
  | _ => false
  end.
(* dtlcp: the message is whole: fragment_offset = 0 and fragment_length = length *)
Definition frag_whole (bs : bytes) : bool :=
  match bs with
  | _ :: a :: b :: c :: _ :: _ :: o1 :: o2 :: o3 :: f1 :: f2 :: f3 :: _ =>
      (be24 o1 o2 o3 =? 0) && (be24 f1 f2 f3 =? be24 a b c)
  | _ => false
  end.
Definition type_ok (t : N) (bs : bytes) : bool :=
  match bs with x :: _ => x =? t | [] => false end.
Definition framed (st : stack) (t : N) (bs : bytes) : bool :=
  type_ok t bs && outer_ok st bs && match st with ST => true | SD => frag_whole bs end.

Definition bytes_ok (bs : bytes) : Prop := Forall (fun b => b < 256) bs.
Definition bytes_okb (bs : bytes) : bool := forallb (fun b => b <? 256) bs.

(* ---------- well-formed field values ---------- *)
Definition wf_blob (n : N) (b : bytes) : Prop := bytes_ok b /\ len b < n.
Definition wf_dh (h : dh) : Prop := dh_seq h < 65536 /\ dh_off h = 0 /\ dh_flen h = 0.

(* Finished / ServerKeyExchange / ClientKeyExchange: the body, below 2^24 bytes *)
Definition wf_body (b : bytes) : Prop := wf_blob 16777216 b.
(* CertificateVerify: opaque signature<0..2^16-1> *)
Definition wf_sig (b : bytes) : Prop := wf_blob 65536 b.
(* Certificate: ASN.1Cert<1..2^24-1> certificate_list<0..2^24-1> *)
Definition wf_certs (cs : list bytes) : Prop :=
  Forall (fun c => bytes_ok c /\ 1 <= len c) cs /\ len (certs_enc cs) + 3 < 16777216.
(* CertificateRequest: certificate_types<1..2^8-1>, DistinguishedName<0..2^16-1> certificate_authorities<0..2^16-1> *)
Definition wf_creq (m : bytes * list bytes) : Prop :=
  bytes_ok (fst m) /\ 1 <= len (fst m) < 256 /\
  Forall (fun c => bytes_ok c /\ len c < 65536) (snd m) /\ len (cas_enc (snd m)) < 65536.
(* HelloVerifyRequest: cookie<0..2^8-1> *)
Definition wf_hvr (m : N * bytes) : Prop := fst m < 65536 /\ wf_blob 256 (snd m).

Definition wf_sh (m : shello) : Prop :=
  sh_vers m < 65536 /\ bytes_ok (sh_random m) /\ len (sh_random m) = 32 /\
  wf_blob 256 (sh_sid m) /\ sh_suite m < 65536 /\ sh_comp m < 256 /\
  (* the ocsp flag says whether a response is present; the response must fit the extension *)
  sh_ocsp m = negb (empty (sh_ocsp_resp m)) /\ wf_blob 65532 (sh_ocsp_resp m) /\
  wf_blob 256 (sh_alpn m) /\ len (sh_exts_enc m) < 65536.

Definition wf_ta (t : ta) : Prop :=
  bytes_ok (ta_id t) /\
  ((ta_type t = 0 /\ ta_id t = []) \/ ((ta_type t = 4 \/ ta_type t = 5) /\ len (ta_id t) = 32) \/
   (ta_type t = 2 /\ len (ta_id t) < 65536)).

Definition wf_ch (cookie : bool) (m : chello) : Prop :=
  ch_vers m < 65536 /\ bytes_ok (ch_random m) /\ len (ch_random m) = 32 /\
  wf_blob 256 (ch_sid m) /\ wf_blob 256 (ch_cookie m) /\ (cookie = false -> ch_cookie m = []) /\
  Forall (fun x => x < 65536) (ch_suites m) /\ 2 * len (ch_suites m) < 65536 /\
  wf_blob 256 (ch_comp m) /\
  wf_blob 65531 (ch_sni m) /\ ends_with_dot (ch_sni m) = false /\
  Forall wf_ta (ch_tas m) /\
  Forall (fun x => x < 65536) (ch_curves m) /\ Forall (fun x => x < 65536) (ch_sigalgs m) /\
  Forall (fun p => bytes_ok p /\ 1 <= len p < 256) (ch_alpn m) /\
  wf_blob 65534 (ch_cid m) /\
  len (flat_map enc_ta (ch_tas m)) < 65534 /\ 2 * len (ch_curves m) < 65534 /\
  2 * len (ch_sigalgs m) < 65534 /\ len (flat_map vec8 (ch_alpn m)) < 65534 /\
  len (ch_exts_enc m) < 65536.

(* ---------- an independent reader of length-prefixed vectors ---------- *)
Fixpoint be (k : nat) (s : bytes) (acc : N) : option (N * bytes) :=
  match k with
  | O => Some (acc, s)
  | S k' => match s with b :: t => be k' t (acc * 256 + b) | [] => None end
  end.
(* cut a vector with a k-byte length prefix off the front of s *)
Definition cut (k : nat) (s : bytes) : option (bytes * bytes) :=
  match be k s 0 with
  | Some (n, t) => if len t <? n then None else Some (firstn (N.to_nat n) t, skipn (N.to_nat n) t)
  | None => None
  end.
(* s is exactly one k-byte-length-prefixed vector whose content satisfies p *)
Definition exact (k : nat) (p : bytes -> bool) (s : bytes) : bool :=
  match cut k s with Some (v, []) => p v | _ => false end.
(* s is a concatenation of k-byte-length-prefixed vectors, each satisfying p *)
Fixpoint all_vecs (fuel : nat) (k : nat) (p : bytes -> bool) (s : bytes) : bool :=
  match s with
  | [] => true
  | _ => match fuel with
         | O => false
         | S f => match cut k s with Some (v, r) => p v && all_vecs f k p r | None => false end
         end
  end.
Definition anyb (_ : bytes) : bool := true.
Definition evenb_len (s : bytes) : bool := Nat.even (length s).
Definition nonempty (s : bytes) : bool := negb (empty s).

(* extension blocks: (type:2)(data: 2-byte length prefix)*; every data block satisfies (p type) *)
Fixpoint all_exts (fuel : nat) (p : N -> bytes -> bool) (s : bytes) : bool :=
  match s with
  | [] => true
  | _ => match fuel with
         | O => false
         | S f => match s with
                  | a :: b :: r => match cut 2 r with
                                   | Some (d, r') => p (be16 a b) d && all_exts f p r'
                                   | None => false
                                   end
                  | _ => false
                  end
         end
  end.
(* the list of (type, data) of a block that all_exts accepts *)
Fixpoint ext_list (fuel : nat) (s : bytes) : list (N * bytes) :=
  match fuel with
  | O => []
  | S f => match s with
           | a :: b :: r => match cut 2 r with
                            | Some (d, r') => (be16 a b, d) :: ext_list f r'
                            | None => []
                            end
           | _ => []
           end
  end.

(* ---------- strict: inner lengths tile the outer one, nothing trails ---------- *)
(* the bodies (after the header; the header itself is judged by outer_ok) *)
Definition strict_cv (body : bytes) : bool := exact 2 anyb body.
Definition strict_hvr (body : bytes) : bool :=
  match body with _ :: _ :: r => exact 1 anyb r | _ => false end.
Definition strict_cert (body : bytes) : bool :=
  exact 3 (fun v => all_vecs (length v) 3 anyb v) body.
Definition strict_creq (body : bytes) : bool :=
  match cut 1 body with
  | Some (_, r) => exact 2 (fun v => all_vecs (length v) 2 anyb v) r
  | None => false
  end.

Definition strict_sh_ext (t : N) (d : bytes) : bool :=
  if t =? extStatusRequest then match d with _ :: r => exact 3 anyb r | [] => false end
  else if t =? extALPN then exact 2 (exact 1 anyb) d
  else if t =? extServerName then empty d
  else true.
Definition strict_sh (body : bytes) : bool :=
  match body with
  | _ :: _ :: r =>
      let r := skipn 32 r in
      (32 <=? len (skipn 2 body)) &&
      match cut 1 r with
      | Some (_, _ :: _ :: _ :: r2) =>
          empty r2 || exact 2 (fun v => all_exts (length v) strict_sh_ext v) r2
      | _ => false
      end
  | _ => false
  end.

(* trusted authorities: the entry size depends on the identifier type; an unknown type has no
   length of its own (the decoder consumes its type byte only) *)
Fixpoint strict_tas (fuel : nat) (s : bytes) : bool :=
  match s with
  | [] => true
  | t :: r =>
      match fuel with
      | O => false
      | S f =>
          if (t =? 4) || (t =? 5) then (32 <=? len r) && strict_tas f (skipn 32 r)
          else if t =? 2 then match cut 2 r with Some (_, r') => strict_tas f r' | None => false end
          else strict_tas f r
      end
  end.
Fixpoint strict_names (fuel : nat) (s : bytes) : bool :=
  match s with
  | [] => true
  | _ :: r => match fuel with
              | O => false
              | S f => match cut 2 r with Some (_, r') => strict_names f r' | None => false end
              end
  end.
Definition strict_ch_ext (t : N) (d : bytes) : bool :=
  if t =? extServerName then exact 2 (fun v => strict_names (length v) v) d
  else if t =? extTrustedCAKeys then exact 2 (fun v => strict_tas (length v) v) d
  else if t =? extStatusRequest then
    match d with _ :: r => match cut 2 r with Some (_, r') => exact 2 anyb r' | None => false end | [] => false end
  else if (t =? extSupportedGroups) || (t =? extSignatureAlgorithms) then exact 2 evenb_len d
  else if t =? extALPN then exact 2 (fun v => all_vecs (length v) 1 anyb v) d
  else if t =? extClientID then exact 2 anyb d
  else true.
Definition strict_ch (cookie : bool) (body : bytes) : bool :=
  match body with
  | _ :: _ :: r =>
      let r := skipn 32 r in
      (32 <=? len (skipn 2 body)) &&
      match cut 1 r with
      | Some (_, r1) =>
          match (if cookie then cut 1 r1 else Some ([], r1)) with
          | Some (_, r2) =>
              match cut 2 r2 with
              | Some (cs, r3) =>
                  evenb_len cs &&
                  match cut 1 r3 with
                  | Some (_, r4) => empty r4 || exact 2 (fun v => all_exts (length v) strict_ch_ext v) r4
                  | None => false
                  end
              | None => false
              end
          | None => false
          end
      | None => false
      end
  | _ => false
  end.

Inductive mt := mCH | mSH | mHVR | mCERT | mSKX | mCREQ | mSHD | mCV | mCKX | mFIN.
Definition mt_type (m : mt) : N :=
  match m with
  | mCH => tClientHello | mSH => tServerHello | mHVR => tHelloVerifyRequest | mCERT => tCertificate
  | mSKX => tServerKeyExchange | mCREQ => tCertificateRequest | mSHD => tServerHelloDone
  | mCV => tCertificateVerify | mCKX => tClientKeyExchange | mFIN => tFinished
  end.

Definition strict_body (st : stack) (m : mt) (body : bytes) : bool :=
  match m with
  | mFIN | mSKX | mCKX => true
  | mSHD => empty body
  | mCV => strict_cv body
  | mHVR => strict_hvr body
  | mCERT => strict_cert body
  | mCREQ => strict_creq body
  | mSH => strict_sh body
  | mCH => strict_ch (match st with SD => true | ST => false end) body
  end.
(* a whole message: header length field right and the body strict *)
Definition strict (st : stack) (m : mt) (bs : bytes) : bool :=
  outer_ok st bs && strict_body st m (body_of st bs).

(* ---------- ignored parts (the property's own exception) ---------- *)
Definition known_sh_ext (t : N) : bool := (t =? extStatusRequest) || (t =? extALPN) || (t =? extServerName).
Definition known_ch_ext (t : N) : bool :=
  (t =? extServerName) || (t =? extTrustedCAKeys) || (t =? extStatusRequest) || (t =? extSupportedGroups) ||
  (t =? extSignatureAlgorithms) || (t =? extALPN) || (t =? extClientID).

(* name types of a server_name_list / identifier types of a trusted_authority_list *)
Fixpoint names_all_host (fuel : nat) (s : bytes) : bool :=
  match s with
  | [] => true
  | t :: r => match fuel with
              | O => false
              | S f => (t =? 0) && match cut 2 r with Some (_, r') => names_all_host f r' | None => false end
              end
  end.
Fixpoint tas_all_known (fuel : nat) (s : bytes) : bool :=
  match s with
  | [] => true
  | t :: r =>
      match fuel with
      | O => false
      | S f =>
          if t =? 0 then tas_all_known f r
          else if (t =? 4) || (t =? 5) then tas_all_known f (skipn 32 r)
          else if t =? 2 then match cut 2 r with Some (_, r') => tas_all_known f r' | None => false end
          else false
      end
  end.
Definition no_ignored_ch_ext (e : N * bytes) : bool :=
  let '(t, d) := e in
  known_ch_ext t &&
  (if t =? extServerName then match cut 2 d with Some (v, _) => names_all_host (length v) v | None => true end
   else if t =? extTrustedCAKeys then match cut 2 d with Some (v, _) => tas_all_known (length v) v | None => true end
   else if t =? extStatusRequest then match d with s :: _ => s =? 1 | [] => true end
   else true).

(* the extension block of a hello body, if any (the bytes after the fixed fields) *)
Definition sh_ext_block (body : bytes) : option bytes :=
  match cut 1 (skipn 34 body) with
  | Some (_, _ :: _ :: _ :: r2) => match cut 2 r2 with Some (v, _) => Some v | None => None end
  | _ => None
  end.
Definition ch_ext_block (cookie : bool) (body : bytes) : option bytes :=
  match cut 1 (skipn 34 body) with
  | Some (_, r1) =>
      match (if cookie then cut 1 r1 else Some ([], r1)) with
      | Some (_, r2) =>
          match cut 2 r2 with
          | Some (_, r3) => match cut 1 r3 with
                            | Some (_, r4) => match cut 2 r4 with Some (v, _) => Some v | None => None end
                            | None => None
                            end
          | None => None
          end
      | None => None
      end
  | None => None
  end.

Definition no_ignored (st : stack) (m : mt) (bs : bytes) : bool :=
  let body := body_of st bs in
  match m with
  | mSH => match sh_ext_block body with
           | Some v => forallb (fun e => known_sh_ext (fst e)) (ext_list (length v) v)
           | None => true
           end
  | mCH => match ch_ext_block (match st with SD => true | ST => false end) body with
           | Some v => forallb no_ignored_ch_ext (ext_list (length v) v)
           | None => true
           end
  | _ => true
  end.

(* ---------- canonical parsers: exactly the encodings marshal produces ---------- *)
(* if s starts with an extension of type t, cut it off *)
Definition opt_ext (t : N) (s : bytes) : option (option bytes * bytes) :=
  match s with
  | a :: b :: r =>
      if be16 a b =? t
      then match cut 2 r with Some (d, r') => Some (Some d, r') | None => None end
      else Some (None, s)
  | _ => Some (None, s)
  end.

Definition canon_sh_body (body : bytes) : option shello :=
  '(vers, s) <- rd_u16 body ;; '(random, s) <- take 32 s ;; '(sid, s) <- cut 1 s ;;
  '(suite, s) <- rd_u16 s ;; '(comp, s) <- rd_u8 s ;;
  if empty s then Some (mkSH vers random sid suite comp false [] [] false) else
  '(blk, s) <- cut 2 s ;;
  if negb (empty s) || empty blk then None else
  '(o5, s) <- opt_ext extStatusRequest blk ;;
  '(o16, s) <- opt_ext extALPN s ;;
  '(o0, s) <- opt_ext extServerName s ;;
  if negb (empty s) then None else
  resp <- match o5 with
          | None => Some []
          | Some (1 :: r) => match cut 3 r with Some (v, []) => if empty v then None else Some v | _ => None end
          | Some _ => None
          end ;;
  alpn <- match o16 with
          | None => Some []
          | Some d => match cut 2 d with
                      | Some (pl, []) => match cut 1 pl with Some (p, []) => if empty p then None else Some p | _ => None end
                      | _ => None
                      end
          end ;;
  ack <- match o0 with None => Some false | Some [] => Some true | Some _ => None end ;;
  Some (mkSH vers random sid suite comp (negb (empty resp)) resp alpn ack).

(* canonical trusted authority list: only known identifier types *)
Fixpoint canon_tas (fuel : nat) (s : bytes) : option (list ta) :=
  match s with
  | [] => Some []
  | t :: r =>
      match fuel with
      | O => None
      | S f =>
          if t =? 0 then l <- canon_tas f r ;; Some (mkTA t [] :: l)
          else if (t =? 4) || (t =? 5) then
            '(id, r') <- take 32 r ;; l <- canon_tas f r' ;; Some (mkTA t id :: l)
          else if t =? 2 then
            '(id, r') <- cut 2 r ;; l <- canon_tas f r' ;; Some (mkTA t id :: l)
          else None
      end
  end.
Fixpoint canon_alpn (fuel : nat) (s : bytes) : option (list bytes) :=
  match s with
  | [] => Some []
  | _ => match fuel with
         | O => None
         | S f => '(p, r) <- cut 1 s ;; if empty p then None else l <- canon_alpn f r ;; Some (p :: l)
         end
  end.

(* a non-empty list of 16-bit values filling the extension exactly *)
Definition canon_u16s (d : bytes) : option (list N) :=
  match cut 2 d with
  | Some (v, []) =>
      l <- rd_u16s v ;;
      match l with
      | [] => None
      | _ => Some l
      end
  | _ => None
  end.

(* the canonical form of each ClientHello extension (o = its data, if present) *)
Definition canon_sni (o : option bytes) : option bytes :=
  match o with
  | None => Some []
  | Some d => match cut 2 d with
              | Some (0 :: e, []) => match cut 2 e with
                                     | Some (name, []) => if empty name || ends_with_dot name then None else Some name
                                     | _ => None
                                     end
              | _ => None
              end
  end.
Definition canon_tca (o : option bytes) : option (list ta) :=
  match o with
  | None => Some []
  | Some d => match cut 2 d with
              | Some (v, []) => if empty v then None else canon_tas (length v) v
              | _ => None
              end
  end.
Definition canon_status (o : option bytes) : option bool :=
  match o with
  | None => Some false
  | Some [1; 0; 0; 0; 0] => Some true
  | Some _ => None
  end.
Definition canon_groups (o : option bytes) : option (list N) :=
  match o with None => Some [] | Some d => canon_u16s d end.
Definition canon_alpns (o : option bytes) : option (list bytes) :=
  match o with
  | None => Some []
  | Some d => match cut 2 d with
              | Some (v, []) => if empty v then None else canon_alpn (length v) v
              | _ => None
              end
  end.
Definition canon_cid (o : option bytes) : option bytes :=
  match o with
  | None => Some []
  | Some d => match cut 2 d with Some (v, []) => if empty v then None else Some v | _ => None end
  end.

Definition canon_ch_body (cookie : bool) (body : bytes) : option chello :=
  '(vers, s) <- rd_u16 body ;; '(random, s) <- take 32 s ;; '(sid, s) <- cut 1 s ;;
  '(ck, s) <- (if cookie then cut 1 s else Some ([], s)) ;;
  '(cs, s) <- cut 2 s ;; suites <- rd_u16s cs ;;
  '(comp, s) <- cut 1 s ;;
  if empty s then Some (mkCH vers random sid ck suites comp [] [] false [] [] [] []) else
  '(blk, s) <- cut 2 s ;;
  if negb (empty s) || empty blk then None else
  '(o0, s) <- opt_ext extServerName blk ;;
  '(o3, s) <- opt_ext extTrustedCAKeys s ;;
  '(o5, s) <- opt_ext extStatusRequest s ;;
  '(o10, s) <- opt_ext extSupportedGroups s ;;
  '(o13, s) <- opt_ext extSignatureAlgorithms s ;;
  '(o16, s) <- opt_ext extALPN s ;;
  '(o66, s) <- opt_ext extClientID s ;;
  if negb (empty s) then None else
  sni <- canon_sni o0 ;; tas <- canon_tca o3 ;; ocsp <- canon_status o5 ;;
  curves <- canon_groups o10 ;; sigalgs <- canon_groups o13 ;;
  alpn <- canon_alpns o16 ;; cid <- canon_cid o66 ;;
  Some (mkCH vers random sid ck suites comp sni tas ocsp curves sigalgs alpn cid).

(* canonical = framed and, for the hello messages, accepted by the canonical parser *)
Definition canonical (st : stack) (m : mt) (bs : bytes) : bool :=
  framed st (mt_type m) bs &&
  match m with
  | mSH => match canon_sh_body (body_of st bs) with Some _ => true | None => false end
  | mCH => match canon_ch_body (match st with SD => true | ST => false end) (body_of st bs) with
           | Some _ => true | None => false end
  | _ => true
  end.
