(* Model of the size arithmetic of dtlcp/conn.go: maxPayloadSizeForWrite, the length of the
   record halfConn.encrypt produces, the splitting loop of writeRecordLocked (Write / WriteTo),
   and flush / writeFlight (a buffered flight is packed into datagrams at record boundaries).  Sizes are Z (Go int). *)
From Coq Require Export ZArith List Lia Bool.
Export ListNotations.
Open Scope Z_scope.

Inductive mode := MPlain | MGcm | MCbc.

Definition hdr_len : Z := 13.
Definition nonce_len (m : mode) : Z := match m with MPlain => 0 | MGcm => 8 | MCbc => 16 end.
Definition eff_pmtu (pmtu : Z) : Z := if pmtu <=? 0 then 1400 else pmtu.
Definition max_plaintext : Z := 16384.

(* x &^ 15 on a Go int (two's complement): round down to a multiple of 16 *)
Definition andnot15 (x : Z) : Z := x / 16 * 16.

Definition max_payload (pmtu : Z) (m : mode) : Z :=
  let x := eff_pmtu pmtu - hdr_len - nonce_len m in
  let x := match m with
           | MPlain => x
           | MGcm => x - 16
           | MCbc => andnot15 x - 1 - 32
           end in
  let x := if max_plaintext <? x then max_plaintext else x in
  if x <? 1 then 1 else x.

(* length of the datagram carrying one record with n plaintext bytes *)
Definition record_len (m : mode) (n : Z) : Z :=
  hdr_len +
  match m with
  | MPlain => n
  | MGcm => 8 + n + 16
  | MCbc => 16 + (n + 32 + (16 - (n + 32) mod 16))
  end.

(* writeRecordLocked: for len(data) > 0 { m := min(len(data), maxPayload); ... } *)
Fixpoint chunks (fuel : nat) (n maxp : Z) : list Z :=
  match fuel with
  | O => []
  | S k => if n <=? 0 then [] else
           let c := if maxp <? n then maxp else n in
           c :: chunks k (n - c) maxp
  end.

(* the datagrams one Write / WriteTo of n bytes hands to the network (not buffering) *)
(* the loop body runs at least once for application data: an empty payload is one empty record *)
Definition write_chunks (n maxp : Z) : list Z :=
  if n <=? 0 then [0] else chunks (Z.to_nat n) n maxp.
Definition write_datagrams (pmtu : Z) (m : mode) (n : Z) : list Z :=
  map (record_len m) (write_chunks n (max_payload pmtu m)).

(* smallest path MTU for which one payload byte fits *)
Definition min_pmtu (m : mode) : Z := record_len m 1.

(* flush / retransmission (Conn.writeFlight): the buffered records of a flight are packed, in order
   and at record boundaries, into datagrams of at most the path MTU; `cur` is the size of the
   datagram being filled (0: empty: the next record goes in whatever its size) *)
Fixpoint pack (pmtu cur : Z) (recs : list Z) : list Z :=
  match recs with
  | [] => if 0 <? cur then [cur] else []
  | r :: t =>
      if (0 <? cur) && (pmtu <? cur + r) then cur :: pack pmtu r t
      else pack pmtu (cur + r) t
  end.
Definition flight_datagrams (pmtu : Z) (recs : list Z) : list Z := pack (eff_pmtu pmtu) 0 recs.

(* before the repair of K3 the whole flight left as ONE datagram *)
Definition flush_datagram (recs : list Z) : Z := fold_right Z.add 0 recs.
