(* Discrete-event model of a DTLCP handshake between two endpoints over a faulty datagram
   network under virtual time, followed by a ping/pong exchange of application data.

   Endpoints (flight level, record by record):
     client : dtlcp/handshake_client.go clientHandshake (cookie loop, hello retransmission),
              handshake / doFullHandshake (flight 5 sent as two datagrams, saved whole),
              readFinished (retransmission of the saved flight with back-off), resumption with
              the dwell period after the client's last flight
     server : dtlcp/handshake_server.go serverHandshake (stateless cookie exchange,
              readNextClientHello), doFullHandshake + readNextFlightMsg (flight 4 re-sent on
              expiry and on a retransmitted ClientHello, timer stopped by the first message of
              flight 5), readFinished, resumption (flight re-sent on expiry), dwell period
     record : dtlcp/conn.go readRecordOrCCS: epoch filter before anything else (an old-epoch
              ChangeCipherSpec during the dwell period re-sends the last flight), an early
              ChangeCipherSpec is discarded before the replay window sees it, replay window,
              handshake records while the ChangeCipherSpec is awaited or after completion are dropped
     timers : dtlcp/retransmit.go (initial value doubling up to the maximum; the maximum is deliberately not a power-of-two multiple of the initial value); read deadlines
   Network: harness/internal/tk/vnet.go (the deterministic virtual-time network the real
   endpoints are run on): zero latency, one datagram handed over per step in sending order,
   fault script by (sender, index): drop / duplicate / delay; time advances only when nothing is
   in flight; two deadlines due at the same instant are served one after the other (the order
   is a parameter), the second one millisecond later.
   All numbers are N (milliseconds, epochs, sequence numbers, indexes). *)
From Coq Require Export NArith List Bool.
Export ListNotations.
Open Scope N_scope.

Inductive side := Cl | Sv.
Definition side_eqb (a b : side) : bool := match a, b with Cl, Cl | Sv, Sv => true | _, _ => false end.
Definition other (s : side) : side := match s with Cl => Sv | Sv => Cl end.

Inductive msg := CH0 | CH1 | HVR | SH | CERT | SKX | CR | SHD | CKX | CV | FIN.
Inductive body :=
| BHs (m : msg) (mseq : N)    (* a whole plaintext handshake message, with its message_seq *)
| BCcs | BEnc                 (* ChangeCipherSpec; encrypted handshake record (the Finished) *)
| BApp | BAlert | BFrag | BOther.
Inductive rec := mkRec (epoch seq : N) (b : body) | Rbad.
Definition dgram := list rec.

(* ------------------------------------------------------------------ configuration *)
Record cfg := mkCfg {
  resume : bool;        (* both sides hold a session: abbreviated handshake *)
  auth : bool;          (* the server requests a client certificate *)
  tie : bool }.         (* simultaneous expiries: server first *)

Definition t_init : N := 100.     (* InitialRetransmitTimeout *)
Definition t_max : N := 1000.     (* MaxRetransmitTimeout *)
Definition t_app : N := 400.      (* read deadline of the application programs *)
Definition n_tries : N := 8.      (* client: pings *)
Definition n_idle : N := 5.       (* server: consecutive idle reads *)
Definition t_cap : N := 60000.    (* the network gives up when nothing can happen before this *)

Definition backoff (cur : N) : N := N.min (2 * cur) t_max.

(* ------------------------------------------------------------------ endpoints *)
Inductive phase :=
(* client *)
| PC_Hello (cookie : bool)
| PC_Cert | PC_Skx | PC_CrShd (cr : bool) | PC_Shd (cr : bool)
| PC_CCS (resumed : bool) | PC_Fin (resumed : bool)
| PC_App
(* server *)
| PS_Hello (hvr_sent : bool)
| PS_Cert | PS_Ckx | PS_Cv
| PS_CCS (resumed : bool) | PS_Fin (resumed : bool)
| PS_App
(* both *)
| P_End (ok : bool).

Record ep := mkEp {
  ph : phase;
  cur : N;                  (* current retransmission timeout *)
  dl : option N;            (* read deadline (absolute) *)
  armed : bool;             (* server: the retransmission timer runs *)
  repoch : N; seen : list N;        (* read epoch; sequence numbers accepted in it *)
  wepoch : N; wseq : N; mseq : N;   (* write epoch, next record sequence number, next message_seq *)
  hello_seq : N;            (* client: message_seq of the current ClientHello *)
  flight : dgram;           (* records saved for retransmission *)
  dwell : bool;             (* completed, last flight kept for the peer's retransmissions *)
  complete : bool;          (* handshake complete *)
  cnt : N;                  (* client: pings sent after the first; server: consecutive idle reads *)
  fin : bool }.             (* the program has returned: nothing is read any more *)

Inductive out := OSend (d : dgram) | ODone (ok : bool) | OGot.

Definition set_ph (e : ep) (p : phase) : ep :=
  mkEp p (cur e) (dl e) (armed e) (repoch e) (seen e) (wepoch e) (wseq e) (mseq e) (hello_seq e) (flight e) (dwell e) (complete e) (cnt e) (fin e).
Definition set_timer (e : ep) (c : N) (d : option N) (a : bool) : ep :=
  mkEp (ph e) c d a (repoch e) (seen e) (wepoch e) (wseq e) (mseq e) (hello_seq e) (flight e) (dwell e) (complete e) (cnt e) (fin e).
Definition set_read (e : ep) (ep_ : N) (s : list N) : ep :=
  mkEp (ph e) (cur e) (dl e) (armed e) ep_ s (wepoch e) (wseq e) (mseq e) (hello_seq e) (flight e) (dwell e) (complete e) (cnt e) (fin e).
Definition set_write (e : ep) (we ws ms : N) : ep :=
  mkEp (ph e) (cur e) (dl e) (armed e) (repoch e) (seen e) we ws ms (hello_seq e) (flight e) (dwell e) (complete e) (cnt e) (fin e).
Definition set_hello_seq (e : ep) (h : N) : ep :=
  mkEp (ph e) (cur e) (dl e) (armed e) (repoch e) (seen e) (wepoch e) (wseq e) (mseq e) h (flight e) (dwell e) (complete e) (cnt e) (fin e).
Definition set_flight (e : ep) (f : dgram) (dw : bool) : ep :=
  mkEp (ph e) (cur e) (dl e) (armed e) (repoch e) (seen e) (wepoch e) (wseq e) (mseq e) (hello_seq e) f dw (complete e) (cnt e) (fin e).
Definition set_complete (e : ep) : ep :=
  mkEp (ph e) (cur e) (dl e) (armed e) (repoch e) (seen e) (wepoch e) (wseq e) (mseq e) (hello_seq e) (flight e) (dwell e) true (cnt e) (fin e).
Definition set_cnt (e : ep) (c : N) : ep :=
  mkEp (ph e) (cur e) (dl e) (armed e) (repoch e) (seen e) (wepoch e) (wseq e) (mseq e) (hello_seq e) (flight e) (dwell e) (complete e) c (fin e).
Definition set_fin (e : ep) : ep :=
  mkEp (ph e) (cur e) None (armed e) (repoch e) (seen e) (wepoch e) (wseq e) (mseq e) (hello_seq e) (flight e) (dwell e) (complete e) (cnt e) true.

(* write handshake messages, one record each, in the current write epoch *)
Fixpoint write_msgs (e : ep) (ms : list msg) : ep * dgram :=
  match ms with
  | [] => (e, [])
  | m :: t =>
      let r := mkRec (wepoch e) (wseq e) (BHs m (mseq e)) in
      let '(e', d) := write_msgs (set_write e (wepoch e) (wseq e + 1) (mseq e + 1)) t in
      (e', r :: d)
  end.
(* ChangeCipherSpec (current epoch) followed by the Finished, the first record of the next epoch *)
Definition write_ccs_fin (e : ep) : ep * dgram :=
  let d := [mkRec (wepoch e) (wseq e) BCcs; mkRec (wepoch e + 1) 0 BEnc] in
  (set_write e (wepoch e + 1) 1 (mseq e + 1), d).
Definition write_app (e : ep) : ep * dgram :=
  (set_write e (wepoch e) (wseq e + 1) (mseq e), [mkRec (wepoch e) (wseq e) BApp]).
(* the ClientHello: a new record, the message_seq it was given when its content last changed *)
Definition write_hello (e : ep) (cookie : bool) : ep * dgram :=
  let r := mkRec (wepoch e) (wseq e) (BHs (if cookie then CH1 else CH0) (hello_seq e)) in
  (set_write e (wepoch e) (wseq e + 1) (mseq e), [r]).

Definition fail (e : ep) : ep * list out := (set_fin (set_ph e (P_End false)), [ODone false]).

Definition expects_ccs (p : phase) : bool :=
  match p with PC_CCS _ | PS_CCS _ => true | _ => false end.

(* -------- client: a handshake message handed to the handshake layer *)
Definition client_done (now : N) (e : ep) (pre : list out) : ep * list out :=
  let e := set_complete e in
  let '(e, ping) := write_app e in
  (set_cnt (set_timer (set_ph e PC_App) (cur e) (Some (now + t_app)) false) 0, pre ++ [ODone true; OSend ping]).

Definition client_flight5 (now : N) (e : ep) (cr : bool) : ep * list out :=
  let '(e, a) := write_msgs e (if cr then [CERT; CKX; CV] else [CKX]) in
  let '(e, b) := write_ccs_fin e in
  let e := set_flight e (a ++ b) false in
  (set_timer (set_ph e (PC_CCS false)) t_init (Some (now + t_init)) false, [OSend a; OSend b]).

Definition client_msg (c : cfg) (now : N) (e : ep) (m : msg) : ep * list out :=
  match ph e, m with
  | PC_Hello ck, HVR =>
      (* first: take the cookie, the hello changes and gets a new message_seq; later: the peer
         retransmitted, the same hello is sent again *)
      let e := if ck then e else set_write (set_hello_seq e (mseq e)) (wepoch e) (wseq e) (mseq e + 1) in
      let '(e, d) := write_hello e true in
      (set_timer (set_ph e (PC_Hello true)) t_init (Some (now + t_init)) false, [OSend d])
  | PC_Hello _, SH =>
      if resume c then (set_timer (set_ph e (PC_CCS true)) (cur e) (Some (now + cur e)) false, [])
      else (set_timer (set_ph e PC_Cert) (cur e) None false, [])
  | PC_Cert, CERT => (set_ph e PC_Skx, [])
  | PC_Skx, SKX => (set_ph e (PC_CrShd false), [])
  | PC_CrShd _, CR => (set_ph e (PC_Shd true), [])
  | PC_CrShd cr, SHD => client_flight5 now e cr
  | PC_Shd cr, SHD => client_flight5 now e cr
  | _, _ => fail e
  end.

(* -------- server *)
Definition server_done (now : N) (e : ep) (pre : list out) : ep * list out :=
  let e := set_complete e in
  (set_cnt (set_timer (set_ph e PS_App) (cur e) (Some (now + t_app)) false) 0, pre ++ [ODone true]).

Definition server_msg (c : cfg) (now : N) (e : ep) (m : msg) : ep * list out :=
  match ph e, m with
  | PS_Hello _, CH0 =>
      let '(e, d) := write_msgs e [HVR] in
      (set_timer (set_ph e (PS_Hello true)) t_init (Some (now + t_init)) false, [OSend d])
  | PS_Hello _, CH1 =>
      if resume c then
        let '(e, a) := write_msgs e [SH] in
        let '(e, b) := write_ccs_fin e in
        let e := set_flight e (a ++ b) false in
        (set_timer (set_ph e (PS_CCS true)) t_init (Some (now + t_init)) true, [OSend (a ++ b)])
      else
        let '(e, a) := write_msgs e (if auth c then [SH; CERT; SKX; CR; SHD] else [SH; CERT; SKX; SHD]) in
        let e := set_flight e a false in
        (set_timer (set_ph e (if auth c then PS_Cert else PS_Ckx)) t_init (Some (now + t_init)) true, [OSend a])
  | (PS_Cert | PS_Ckx | PS_Cv), (CH0 | CH1) =>
      (* the client retransmitted its hello: flight 4 again, back-off *)
      let c' := backoff (cur e) in
      (set_timer e c' (Some (now + c')) (armed e), [OSend (flight e)])
  | PS_Cert, CERT => (set_timer (set_ph e PS_Ckx) (cur e) (Some (now + cur e)) false, [])
  | PS_Ckx, CKX => (set_timer (set_ph e (if auth c then PS_Cv else PS_CCS false)) (cur e) (Some (now + cur e)) false, [])
  | PS_Cv, CV => (set_timer (set_ph e (PS_CCS false)) (cur e) (Some (now + cur e)) false, [])
  | _, _ => fail e
  end.

(* -------- a record arrives (dtlcp/conn.go readRecordOrCCS, then the handshake layer / Read) *)
Definition is_client (p : phase) : bool :=
  match p with PC_Hello _ | PC_Cert | PC_Skx | PC_CrShd _ | PC_Shd _ | PC_CCS _ | PC_Fin _ | PC_App => true | _ => false end.

Definition recv_rec (c : cfg) (now : N) (e : ep) (r : rec) : ep * list out :=
  if fin e then (e, []) else
  match r with
  | Rbad => fail e
  | mkRec epoch seq b =>
      if negb (epoch =? repoch e) then
        (* another epoch: dropped; an old ChangeCipherSpec during the dwell period means the peer
           did not get our last flight *)
        if (epoch <? repoch e) && complete e && dwell e && match b with BCcs => true | _ => false end
        then (e, [OSend (flight e)]) else (e, [])
      else if match b with BCcs => negb (expects_ccs (ph e)) && negb (complete e) | _ => false end
      then (e, [])                                  (* early ChangeCipherSpec: discarded, replay window untouched *)
      else if existsb (N.eqb seq) (seen e) then (e, [])          (* replay *)
      else
        let e := set_read e (repoch e) (seq :: seen e) in
        match b with
        | BCcs =>
            if complete e then (if dwell e then (e, [OSend (flight e)]) else (e, []))
            else (* expected *)
              let e := set_read e (repoch e + 1) [] in
              match ph e with
              | PC_CCS rs => (set_ph e (PC_Fin rs), [])
              | PS_CCS rs => (set_timer (set_ph e (PS_Fin rs)) (cur e) None false, [])
              | _ => fail e
              end
        | BApp =>
            if negb (complete e) || expects_ccs (ph e) then fail e
            else
              let e := set_flight e [] false in       (* application data ends the dwell period *)
              match ph e with
              | PC_App => (set_fin e, [OGot])          (* the pong: the client program returns *)
              | PS_App =>
                  let '(e, pong) := write_app e in
                  (set_cnt (set_timer e (cur e) (Some (now + t_app)) false) 0, [OGot; OSend pong])
              | _ => fail e
              end
        | BEnc | BHs _ _ =>
            if complete e then (if dwell e then (e, [OSend (flight e)]) else (e, []))
            else if expects_ccs (ph e) then (e, [])    (* a retransmission of the peer's previous flight *)
            else
              match b, ph e with
              | BEnc, PC_Fin true =>
                  (* abbreviated handshake: the client answers with its ChangeCipherSpec + Finished and dwells *)
                  let '(e, d) := write_ccs_fin e in
                  client_done now (set_flight e d true) [OSend d]
              | BEnc, PC_Fin false => client_done now (set_timer e (cur e) None false) []
              | BEnc, PS_Fin true => server_done now e []
              | BEnc, PS_Fin false =>
                  let '(e, d) := write_ccs_fin e in
                  server_done now (set_flight e d true) [OSend d]
              | BHs m _, p => if is_client p then client_msg c now e m else server_msg c now e m
              | _, _ => fail e
              end
        | _ => fail e
        end
  end.

Fixpoint recv_dgram (c : cfg) (now : N) (e : ep) (d : dgram) : ep * list out :=
  match d with
  | [] => (e, [])
  | r :: t =>
      let '(e1, o1) := recv_rec c now e r in
      let '(e2, o2) := recv_dgram c now e1 t in
      (e2, o1 ++ o2)
  end.

(* -------- a read deadline expires *)
Definition expire (c : cfg) (now : N) (e : ep) : ep * list out :=
  match ph e with
  | PC_Hello ck =>
      let '(e, d) := write_hello e ck in
      (set_timer e t_init (Some (now + t_init)) false, [OSend d])
  | PC_CCS false | PC_Fin false =>
      let c' := backoff (cur e) in
      (set_timer e c' (Some (now + c')) false, [OSend (flight e)])
  | PC_CCS true | PC_Fin true =>
      let c' := backoff (cur e) in (set_timer e c' (Some (now + c')) false, [])
  | PC_App =>
      let '(e, ping) := write_app e in
      let n := cnt e + 1 in
      if n_tries <=? n then (set_fin (set_cnt e n), [OSend ping])
      else (set_cnt (set_timer e (cur e) (Some (now + t_app)) false) n, [OSend ping])
  | PS_Hello true =>
      let c' := backoff (cur e) in (set_timer e c' (Some (now + c')) false, [])
  | PS_Cert | PS_Ckx | PS_Cv | PS_CCS _ =>
      if armed e then
        let c' := backoff (cur e) in (set_timer e c' (Some (now + c')) true, [OSend (flight e)])
      else (set_timer e (cur e) (Some (now + cur e)) false, [])
  | PS_App =>
      let n := cnt e + 1 in
      if n_idle <=? n then (set_fin (set_cnt e n), [])
      else (set_cnt (set_timer e (cur e) (Some (now + t_app)) false) n, [])
  | _ => (set_timer e (cur e) None false, [])
  end.

(* ------------------------------------------------------------------ network and scheduler *)
Inductive fkind := FDrop | FDup | FDelay.
Record fault := mkFault { f_side : side; f_idx : N; f_kind : fkind; f_ms : N }.

Inductive nact := Ndeliver | Ndup | Nlate | Ndrop | Nhold.
Inductive ev :=
| ESend (s : side) (idx : N) (d : dgram)
| ENet (a : nact) (s : side) (idx : N)      (* the network acts on datagram idx sent by s *)
| EExpire (s : side)
| EDone (s : side) (ok : bool)
| EGot (s : side)
| EOther (s : side).

Record pkt := mkPkt { p_from : side; p_idx : N; p_data : dgram }.

Record net := mkNet {
  now : N;
  cl : ep; sv : ep;
  queue : list pkt;                 (* sent, not yet looked at by the network *)
  ready : list pkt;                 (* delayed, due *)
  held : list (N * pkt);            (* delayed, with release time *)
  nsent_c : N; nsent_s : N;
  trace : list (N * ev) }.          (* newest first *)

Definition get_ep (n : net) (s : side) : ep := match s with Cl => cl n | Sv => sv n end.
Definition put_ep (n : net) (s : side) (e : ep) : net :=
  match s with
  | Cl => mkNet (now n) e (sv n) (queue n) (ready n) (held n) (nsent_c n) (nsent_s n) (trace n)
  | Sv => mkNet (now n) (cl n) e (queue n) (ready n) (held n) (nsent_c n) (nsent_s n) (trace n)
  end.
Definition log (n : net) (e : ev) : net :=
  mkNet (now n) (cl n) (sv n) (queue n) (ready n) (held n) (nsent_c n) (nsent_s n) ((now n, e) :: trace n).

(* the outputs of endpoint s, in order: datagrams join the queue *)
Fixpoint emit (n : net) (s : side) (os : list out) : net :=
  match os with
  | [] => n
  | OSend d :: t =>
      let idx := match s with Cl => nsent_c n | Sv => nsent_s n end in
      let n := log n (ESend s idx d) in
      let n := mkNet (now n) (cl n) (sv n) (queue n ++ [mkPkt s idx d]) (ready n) (held n)
                     (match s with Cl => nsent_c n + 1 | Sv => nsent_c n end)
                     (match s with Sv => nsent_s n + 1 | Cl => nsent_s n end) (trace n) in
      emit n s t
  | ODone ok :: t => emit (log n (EDone s ok)) s t
  | OGot :: t => emit (log n (EGot s)) s t
  end.

Definition hand_over (c : cfg) (n : net) (p : pkt) : net :=
  let s := other (p_from p) in
  let '(e, os) := recv_dgram c (now n) (get_ep n s) (p_data p) in
  emit (put_ep n s e) s os.

Definition do_expire (c : cfg) (n : net) (s : side) : net :=
  let n := log n (EExpire s) in
  let '(e, os) := expire c (now n) (get_ep n s) in
  emit (put_ep n s e) s os.

Fixpoint decide (fs : list fault) (p : pkt) : option fault :=
  match fs with
  | [] => None
  | f :: t => if side_eqb (f_side f) (p_from p) && (f_idx f =? p_idx p) then Some f else decide t p
  end.

Definition set_queue (n : net) (q : list pkt) : net :=
  mkNet (now n) (cl n) (sv n) q (ready n) (held n) (nsent_c n) (nsent_s n) (trace n).
Definition set_ready (n : net) (r : list pkt) : net :=
  mkNet (now n) (cl n) (sv n) (queue n) r (held n) (nsent_c n) (nsent_s n) (trace n).
Definition set_held (n : net) (h : list (N * pkt)) : net :=
  mkNet (now n) (cl n) (sv n) (queue n) (ready n) h (nsent_c n) (nsent_s n) (trace n).
Definition set_now (n : net) (t : N) : net :=
  mkNet t (cl n) (sv n) (queue n) (ready n) (held n) (nsent_c n) (nsent_s n) (trace n).

Definition omin (a : option N) (b : N) : option N :=
  match a with None => Some b | Some x => Some (N.min x b) end.
Definition deadline_of (e : ep) : option N := if fin e then None else dl e.

(* stable insertion by release time *)
Fixpoint insert_rel (x : N * pkt) (l : list (N * pkt)) : list (N * pkt) :=
  match l with
  | [] => [x]
  | y :: t => if fst x <? fst y then x :: l else y :: insert_rel x t
  end.
Definition sort_rel (l : list (N * pkt)) : list (N * pkt) := fold_left (fun acc x => insert_rel x acc) l [].

Definition due (t : N) (e : ep) : bool :=
  match deadline_of e with Some d => d <=? t | None => false end.

(* one step of the controller; None: nothing more can happen *)
Definition step (c : cfg) (fs : list fault) (n : net) : option net :=
  if fin (cl n) && fin (sv n) && match queue n with [] => true | _ => false end then None else
  match ready n with
  | p :: r =>
      let n := log (set_ready n r) (ENet Nlate (p_from p) (p_idx p)) in
      Some (hand_over c n p)
  | [] =>
      match queue n with
      | p :: q =>
          let n := set_queue n q in
          match decide fs p with
          | Some (mkFault _ _ FDrop _) => Some (log n (ENet Ndrop (p_from p) (p_idx p)))
          | Some (mkFault _ _ FDup _) =>
              let n := log (log n (ENet Ndeliver (p_from p) (p_idx p))) (ENet Ndup (p_from p) (p_idx p)) in
              Some (hand_over c (hand_over c n p) p)
          | Some (mkFault _ _ FDelay ms) =>
              Some (log (set_held n (held n ++ [(now n + ms, p)])) (ENet Nhold (p_from p) (p_idx p)))
          | None => Some (hand_over c (log n (ENet Ndeliver (p_from p) (p_idx p))) p)
          end
      | [] =>
          let nx := fold_left (fun a h => omin a (fst h)) (held n)
                      (match deadline_of (cl n), deadline_of (sv n) with
                       | Some a, Some b => Some (N.min a b) | Some a, None => Some a | None, b => b end) in
          match nx with
          | None => None
          | Some t =>
              if t_cap <? t then None else
              let t := N.max t (now n) in
              let n := set_now n t in
              let hs := sort_rel (held n) in
              let n := set_ready (set_held n (filter (fun h => negb (fst h <=? t)) hs))
                                 (map snd (filter (fun h => fst h <=? t) hs)) in
              match due t (cl n), due t (sv n) with
              | true, true =>
                  let first := if tie c then Sv else Cl in
                  let second := other first in
                  let e2 := get_ep n second in
                  let n := put_ep n second (set_timer e2 (cur e2) (Some (t + 1)) (armed e2)) in
                  Some (do_expire c n first)
              | true, false => Some (do_expire c n Cl)
              | false, true => Some (do_expire c n Sv)
              | false, false => Some n
              end
          end
      end
  end.

Fixpoint run (fuel : nat) (c : cfg) (fs : list fault) (n : net) : net * bool :=
  match fuel with
  | O => (n, false)
  | S k => match step c fs n with None => (n, true) | Some n' => run k c fs n' end
  end.

Definition ep0 (p : phase) : ep := mkEp p t_init None false 0 [] 0 0 0 0 [] false false 0 false.

(* the client starts by sending its first ClientHello *)
Definition init : net :=
  let '(e, d) := write_hello (set_write (ep0 (PC_Hello false)) 0 0 1) false in
  let e := set_timer e t_init (Some t_init) false in
  emit (mkNet 0 e (ep0 (PS_Hello false)) [] [] [] 0 0 []) Cl [OSend d].

Definition fuel0 : nat := 2000.
Definition simulate (c : cfg) (fs : list fault) : net * bool := run fuel0 c fs init.
Definition sim_trace (c : cfg) (fs : list fault) : list (N * ev) := rev (trace (fst (simulate c fs))).

(* ------------------------------------------------------------------ observables *)
Definition ok_end (e : ep) : bool := complete e.
Fixpoint has_ev (f : ev -> bool) (t : list (N * ev)) : bool :=
  match t with [] => false | (_, e) :: r => f e || has_ev f r end.
Definition got (s : side) (t : list (N * ev)) : bool :=
  has_ev (fun e => match e with EGot s' => side_eqb s s' | _ => false end) t.
Fixpoint done_time (s : side) (t : list (N * ev)) : option N :=
  match t with
  | [] => None
  | (at_, EDone s' true) :: r => if side_eqb s s' then Some at_ else done_time s r
  | _ :: r => done_time s r
  end.
Fixpoint count_expiries_before (s : side) (lim : N) (t : list (N * ev)) : N :=
  match t with
  | [] => 0
  | (at_, EExpire s') :: r => (if side_eqb s s' && (at_ <=? lim) then 1 else 0) + count_expiries_before s lim r
  | _ :: r => count_expiries_before s lim r
  end.

(* ------------------------------------------------------------------ the property on a trace *)
Fixpoint sum_timeouts (k : nat) (cur : N) : N :=
  match k with O => 0 | S k' => cur + sum_timeouts k' (backoff cur) end.
Definition delays (fs : list fault) : N :=
  fold_left (fun a f => match f_kind f with FDelay => a + f_ms f | _ => a end) fs 0.
(* time allowed to a handshake hit by the faults fs: one retransmission timeout of the schedule
   per fault, plus the injected delays (and one millisecond per serialised simultaneous expiry) *)
Definition allowed (fs : list fault) : N := sum_timeouts (length fs) t_init + delays fs + N.of_nat (length fs).

Fixpoint expiry_before_done (cd sd : bool) (t : list (N * ev)) : bool :=
  match t with
  | [] => false
  | (_, EDone Cl true) :: r => expiry_before_done true sd r
  | (_, EDone Sv true) :: r => expiry_before_done cd true r
  | (_, EExpire _) :: r => negb (cd && sd) || expiry_before_done cd sd r
  | _ :: r => expiry_before_done cd sd r
  end.
Fixpoint got_before_done (cd sd : bool) (t : list (N * ev)) : bool :=
  match t with
  | [] => false
  | (_, EDone Cl true) :: r => got_before_done true sd r
  | (_, EDone Sv true) :: r => got_before_done cd true r
  | (_, EGot Cl) :: r => negb cd || got_before_done cd sd r
  | (_, EGot Sv) :: r => negb sd || got_before_done cd sd r
  | _ :: r => got_before_done cd sd r
  end.
Definition late (s : side) (fs : list fault) (t : list (N * ev)) : bool :=
  match done_time s t with Some d => allowed fs <? d | None => true end.


(* what C19 asks of one run: both endpoints complete, application data flows in both directions
   and only after completion, both completions within the time the schedule allows, and without
   any fault no deadline expires before both have completed *)
Definition good_trace (fs : list fault) (t : list (N * ev)) : bool :=
  negb (got_before_done false false t) && got Cl t && got Sv t &&
  negb (late Cl fs t) && negb (late Sv fs t) &&
  match fs with [] => negb (expiry_before_done false false t) | _ => true end.
Definition good_run (c : cfg) (fs : list fault) : bool :=
  let '(n, finished) := simulate c fs in
  finished && complete (cl n) && complete (sv n) && good_trace fs (rev (trace n)).

(* the fault patterns that are enumerated: any datagram index below max_idx of either side,
   lost, duplicated, or delayed by one of the listed amounts *)
Definition delay_set : list N := [30; 150; 450; 1200].
Definition sides : list side := [Cl; Sv].
Definition fault_space (max_idx : nat) : list fault :=
  flat_map (fun s => flat_map (fun i =>
     [mkFault s i FDrop 0; mkFault s i FDup 0] ++ map (fun d => mkFault s i FDelay d) delay_set)
     (map N.of_nat (seq 0 max_idx))) sides.
Definition all_cfgs : list cfg :=
  [mkCfg false false false; mkCfg false false true; mkCfg false true false; mkCfg false true true;
   mkCfg true false false; mkCfg true false true; mkCfg true true false; mkCfg true true true].

(* an endpoint completes only after a datagram carrying the peer's Finished has been handed to it *)
Definition has_fin (d : dgram) : bool :=
  existsb (fun r => match r with mkRec _ _ BEnc => true | _ => false end) d.
Definition hands_over (a : nact) : bool := match a with Ndeliver | Ndup | Nlate => true | _ => false end.
Fixpoint done_after_fin (s : side) (sent : list N) (handed : bool) (t : list (N * ev)) : bool :=
  match t with
  | [] => true
  | (_, ESend s' i d) :: r =>
      done_after_fin s (if side_eqb s' (other s) && has_fin d then i :: sent else sent) handed r
  | (_, ENet a s' i) :: r =>
      done_after_fin s sent (handed || (side_eqb s' (other s) && hands_over a && existsb (N.eqb i) sent)) r
  | (_, EDone s' true) :: r => (negb (side_eqb s s') || handed) && done_after_fin s sent handed r
  | _ :: r => done_after_fin s sent handed r
  end.

(* the values the retransmission timeout can take *)
Definition schedule : list N := [100; 200; 400; 800; 1000].
