(* Model of dtlcp/cookie.go (generateCookie / verifyCookie), of
   dtlcp/handshake_server.go marshalForCookie and of the cookie loop that precedes every
   certificate selection and key operation in serverHandshake.
   HMAC-SM3 is a Section variable; the idealisation used by the binding theorem is a Section
   hypothesis (no axiom is declared). *)
From Coq Require Export NArith Arith List Lia Bool.
Export ListNotations.

Definition byte := N.

Definition u16 (x : N) : list byte := [((x / 256) mod 256)%N; (x mod 256)%N].
Definition u8 (x : N) : list byte := [(x mod 256)%N].

(* what the HMAC is computed over: a 2-byte length of the address, the address, the parameters *)
Definition enc (addr params : list byte) : list byte :=
  u16 (N.of_nat (length addr)) ++ addr ++ params.

(* the ClientHello fields the cookie covers *)
Record hello := mkHello {
  h_vers : N; h_random : list byte; h_sid : list byte; h_suites : list N; h_comp : list byte;
  h_cookie : list byte }.

Definition wf_hello (h : hello) : Prop :=
  (h_vers h < 65536)%N /\ length (h_random h) = 32 /\ length (h_sid h) < 256 /\
  length (h_suites h) < 65536 /\ Forall (fun s => (s < 65536)%N) (h_suites h) /\
  length (h_comp h) < 256 /\
  Forall (fun b => (b < 256)%N) (h_random h) /\ Forall (fun b => (b < 256)%N) (h_sid h) /\
  Forall (fun b => (b < 256)%N) (h_comp h).

(* marshalForCookie: version(2) random(32) sid(1+n) suites(2-byte COUNT + 2 each) comp(1+n) *)
Definition marshal_for_cookie (h : hello) : list byte :=
  u16 (h_vers h) ++ h_random h ++ u8 (N.of_nat (length (h_sid h))) ++ h_sid h ++
  u16 (N.of_nat (length (h_suites h))) ++ flat_map u16 (h_suites h) ++
  u8 (N.of_nat (length (h_comp h))) ++ h_comp h.

Fixpoint bytes_eqb (a b : list byte) : bool :=
  match a, b with
  | [], [] => true
  | x :: a', y :: b' => N.eqb x y && bytes_eqb a' b'
  | _, _ => false
  end.

(* effectiveCookieSecret: the configured secret when one is configured (non-empty), otherwise the
   32 bytes this connection drew from its random source *)
Definition effective_secret (configured drawn : list byte) : list byte :=
  if Nat.eqb (length configured) 0 then drawn else configured.

Section WithHMAC.
  Variable hmac : list byte -> list byte -> list byte.   (* key, message *)

  Definition gen_cookie (secret addr params : list byte) : list byte := hmac secret (enc addr params).
  Definition verify_cookie (secret addr params cookie : list byte) : bool :=
    bytes_eqb (gen_cookie secret addr params) cookie.

  (* what the server sends / does for one ClientHello before a valid cookie is seen *)
  Inductive sout := HVR (cookie : list byte).      (* a HelloVerifyRequest datagram *)

  Record effects := mkEff { key_ops : nat; cert_bytes : nat }.

  (* the loop of serverHandshake: every hello without a valid cookie is answered by one
     HelloVerifyRequest carrying the cookie for that hello; nothing else happens *)
  Fixpoint cookie_loop (secret addr : list byte) (hs : list hello)
    : list sout * effects * option hello :=
    match hs with
    | [] => ([], mkEff 0 0, None)
    | h :: t =>
        let params := marshal_for_cookie h in
        if negb (Nat.eqb (length (h_cookie h)) 0) && verify_cookie secret addr params (h_cookie h)
        then ([], mkEff 0 0, Some h)
        else let '(o, e, r) := cookie_loop secret addr t in
             (HVR (gen_cookie secret addr params) :: o, e, r)
    end.

  (* datagram sizes: record header 13 + handshake header 12 + body *)
  Definition hvr_datagram_len (cookie : list byte) : nat := 13 + 12 + 2 + 1 + length cookie.
  Definition client_hello_min_datagram_len (h : hello) : nat :=
    13 + 12 + 2 + 32 + 1 + length (h_sid h) + 1 + length (h_cookie h) + 2 + 2 * length (h_suites h) + 1 + length (h_comp h).
End WithHMAC.
