(* Model of the receiving half of an established TLCP connection under an active attacker:
   tlcp/conn.go readRecordOrCCS (framing checks, decrypt, content-type dispatch after the
   handshake), retryReadRecord, halfConn.setErrorLocked (latched error), Conn.Read.
   The sender sealed the records `gs` (in order, under one key, implicit sequence numbers
   0,1,2,...).  The attacker delivers an arbitrary byte stream.  Authenticated decryption is
   idealised (INT-CTXT of SM4-GCM / HMAC-SM3-then-CBC with the sequence number in the MAC):
   a record opens iff it is byte for byte the record the sender sealed with the sequence number
   the receiver expects.  Framing (type, version, length, end of transport) is concrete. *)
From Coq Require Export NArith Arith List Lia Bool.
Export ListNotations.

Definition byte := N.

(* inner content of a genuine record *)
Inductive content :=
| CApp (data : list byte)        (* application data *)
| CWarn                          (* warning alert other than close_notify *)
| CClose                         (* close_notify *)
| CFatal                         (* fatal alert *)
| CHandshake                     (* a handshake message (renegotiation attempt) *)
| CCcs.

Record grec := mkG { g_wire : list byte; g_content : content }.

Fixpoint bytes_eqb (a b : list byte) : bool :=
  match a, b with
  | [], [] => true
  | x :: a', y :: b' => N.eqb x y && bytes_eqb a' b'
  | _, _ => false
  end.

(* how reading ends *)
Inductive ending :=
| EndEOF                 (* io.EOF: close_notify received, or transport ended on a record boundary *)
| EndUnexpectedEOF       (* transport ended inside a record *)
| EndAlert (code : N)    (* the receiver sent this fatal alert: 20 bad_record_mac, 70 protocol_version,
                            22 record_overflow, 10 unexpected_message, 100 no_renegotiation *)
| EndRemoteFatal         (* a genuine fatal alert from the peer *)
| EndTooManyIgnored      (* more than 16 consecutive non-advancing records *)
| EndOutOfFuel.

Definition max_ciphertext : nat := 18432.
Definition max_useless : nat := 16.

(* one readRecordOrCCS on `stream` with `seq` records accepted so far.
   Returns the remaining stream and either an accepted record's content or an ending. *)
Definition read_record (gs : list grec) (seq : nat) (stream : list byte)
  : list byte * (content + ending) :=
  match stream with
  | [] => ([], inr EndEOF)
  | _ =>
      if Nat.ltb (length stream) 5 then ([], inr EndUnexpectedEOF)
      else
        let vers := (nth 1 stream 0 * 256 + nth 2 stream 0)%N in
        let n := N.to_nat (nth 3 stream 0 * 256 + nth 4 stream 0)%N in
        if negb (N.eqb vers 257) then (stream, inr (EndAlert 70))
        else if Nat.ltb max_ciphertext n then (stream, inr (EndAlert 22))
        else if Nat.ltb (length stream) (5 + n) then ([], inr EndUnexpectedEOF)
        else
          let rec := firstn (5 + n) stream in
          let rest := skipn (5 + n) stream in
          match nth_error gs seq with
          | Some g => if bytes_eqb rec (g_wire g) then (rest, inl (g_content g))
                      else (rest, inr (EndAlert 20))
          | None => (rest, inr (EndAlert 20))
          end
  end.

(* Conn.Read until the stream is exhausted or an error is latched: the bytes delivered to the
   application, in order, and how it ended *)
Fixpoint receive (fuel : nat) (gs : list grec) (seq retry : nat) (stream : list byte)
  : list byte * ending :=
  match fuel with
  | O => ([], EndOutOfFuel)
  | S k =>
      match read_record gs seq stream with
      | (_, inr e) => ([], e)
      | (rest, inl c) =>
          match c with
          | CApp [] => if Nat.ltb max_useless (S retry) then ([], EndTooManyIgnored)
                       else receive k gs (S seq) (S retry) rest
          | CApp d => let '(more, e) := receive k gs (S seq) 0 rest in (d ++ more, e)
          | CWarn => if Nat.ltb max_useless (S retry) then ([], EndTooManyIgnored)
                     else receive k gs (S seq) (S retry) rest
          | CClose => ([], EndEOF)
          | CFatal => ([], EndRemoteFatal)
          | CHandshake => ([], EndAlert 100)
          | CCcs => ([], EndAlert 10)
          end
      end
  end.

Definition receive_all (gs : list grec) (stream : list byte) : list byte * ending :=
  receive (S (length stream)) gs 0 0 stream.

(* ---------------- the Read-call level: the first permanent error is latched ---------------- *)
Record rstate := mkRS { rs_err : option ending; rs_pending : list byte * ending }.
(* rs_pending: what is still to be delivered and the ending that follows it *)

Definition read_call (st : rstate) (n : nat) : rstate * (list byte * option ending) :=
  match rs_err st with
  | Some e => (st, ([], Some e))
  | None =>
      match rs_pending st with
      | ([], e) => (mkRS (Some e) ([], e), ([], Some e))
      | (d, e) => if Nat.eqb n 0 then (st, ([], None))
                  else (mkRS None (skipn n d, e), (firstn n d, None))
      end
  end.

Fixpoint read_calls (st : rstate) (ns : list nat) : list (list byte * option ending) :=
  match ns with
  | [] => []
  | n :: t => let '(st', r) := read_call st n in r :: read_calls st' t
  end.

(* ---------------- byte-level CBC record opening (block cipher abstract) ---------------- *)
Section CBC.
  Variable dec : list byte -> list byte -> list byte.   (* iv, ciphertext -> plaintext (same length) *)
  Variable mac : list byte -> list byte.                 (* authenticated string -> 32-byte tag *)

  Inductive opened := Opened (pt : list byte) | Refused (alert : N).

  (* halfConn.decrypt, cbcMode branch: payload = explicit IV (16) || ciphertext; blockSize 16,
     MAC 32; every failure is answered with bad_record_mac (20) *)
  Definition cbc_open (hdr_seq : list byte) (payload : list byte) : opened :=
    if negb (Nat.eqb (length payload mod 16) 0) || Nat.ltb (length payload) (16 + 48) then Refused 20
    else
      let pt := dec (firstn 16 payload) (skipn 16 payload) in
      match rev pt with
      | [] => Refused 20
      | p :: _ =>
          let padlen := N.to_nat p in
          let good := Nat.leb (padlen + 1) (length pt) &&
                      forallb (fun b => N.eqb b p) (skipn (length pt - (padlen + 1)) pt) in
          let torem := if good then padlen + 1 else 1 in
          if Nat.ltb (length pt) (32 + torem) then Refused 20
          else
            let n := length pt - 32 - torem in
            let data := firstn n pt in
            let tag := firstn 32 (skipn n pt) in
            if good && bytes_eqb (mac (hdr_seq ++ data)) tag then Opened data else Refused 20
      end.
End CBC.
