(* Model of tlcp/handshake_messages.go: marshal / unmarshal of the nine TLCP handshake messages
   (4-byte header [type:1][length:3]).  `raw` caching is not modelled: encode is what marshal
   computes when raw == nil (the hooks clear raw before re-marshalling).
   cryptobyte-based decoders (clientHello, serverHello, certificateVerify, finished) use the
   option readers of Codec.v; the hand-indexed ones (certificate, serverKeyExchange,
   certificateRequest, serverHelloDone, clientKeyExchange) follow the Go code index by index,
   every index / slice expression going through idx / from / sub with its own site number.
   No proofs in this file. *)
From V Require Export Model.Codec.
Open Scope N_scope.
Open Scope res_scope.

Definition t_hdr (typ : N) (body : bytes) : bytes := typ :: u24 (len body) ++ body.

(* ---------- finishedMsg ---------- *)
Definition T_fin_enc (vd : bytes) : bytes := t_hdr tFinished vd.
Definition T_fin_dec (data : bytes) : res bytes :=
  of_opt ('(_, s) <- take 1 data ;; '(vd, s) <- rd_vec24 s ;; if empty s then Some vd else None).

(* ---------- serverHelloDoneMsg ---------- *)
Definition T_shd_enc (_ : unit) : bytes := [tServerHelloDone; 0; 0; 0].
Definition T_shd_dec (data : bytes) : res unit :=
  if len data =? 4 then Ok tt else Reject.

(* ---------- clientKeyExchangeMsg ---------- *)
Definition T_ckx_enc (ct : bytes) : bytes := t_hdr tClientKeyExchange ct.
Definition T_ckx_dec (data : bytes) : res bytes :=
  if len data <? 4 then Reject else
  b1 <-- idx data 1 101 ;; b2 <-- idx data 2 102 ;; b3 <-- idx data 3 103 ;;
  let l := be24 b1 b2 b3 in
  if negb (l =? len data - 4) then Reject else
  from data 4 104.

(* ---------- serverKeyExchangeMsg ---------- *)
Definition T_skx_enc (key : bytes) : bytes := t_hdr tServerKeyExchange key.
Definition T_skx_dec (data : bytes) : res bytes :=
  if len data <? 4 then Reject else from data 4 111.

(* ---------- certificateVerifyMsg ---------- *)
Definition T_cv_enc (sig : bytes) : bytes := t_hdr tCertificateVerify (vec16 sig).
Definition T_cv_dec (data : bytes) : res bytes :=
  of_opt ('(_, s) <- take 4 data ;; '(sig, s) <- rd_vec16 s ;; if empty s then Some sig else None).

(* ---------- certificateMsg ---------- *)
Definition certs_enc (cs : list bytes) : bytes := flat_map vec24 cs.
Definition T_cert_enc (cs : list bytes) : bytes := t_hdr tCertificate (vec24 (certs_enc cs)).

(* first loop: count the entries.  certsLen is a uint32 that the loop decrements; d shrinks.
   fuel bounds the number of iterations (every iteration removes at least 3 bytes of d);
   running out of fuel is reported as Panic 999 so that "no panic" also proves the bound. *)
Fixpoint cert_count (site0 : nat) (fuel : nat) (certsLen : N) (d : bytes) (num : nat) : res nat :=
  if certsLen =? 0 then Ok num else
  match fuel with
  | O => Panic 999
  | S k =>
      if len d <? 4 then Reject else
      b0 <-- idx d 0 (site0 + 1) ;; b1 <-- idx d 1 (site0 + 2) ;; b2 <-- idx d 2 (site0 + 3) ;;
      let certLen := be24 b0 b1 b2 in
      if u32 (len d) <? 3 + certLen then Reject else
      d' <-- from d (3 + certLen) (site0 + 4) ;;
      cert_count site0 k (u32 (certsLen + 4294967296 - (3 + certLen))) d' (S num)
  end.

(* second loop: for i := 0; i < numCerts; i++ *)
Fixpoint cert_collect (site0 : nat) (num : nat) (d : bytes) : res (list bytes) :=
  match num with
  | O => Ok []
  | S k =>
      b0 <-- idx d 0 (site0 + 5) ;; b1 <-- idx d 1 (site0 + 6) ;; b2 <-- idx d 2 (site0 + 7) ;;
      let certLen := be24 b0 b1 b2 in
      c <-- sub d 3 (3 + certLen) (site0 + 8) ;;
      d' <-- from d (3 + certLen) (site0 + 9) ;;
      r <-- cert_collect site0 k d' ;;
      Ok (c :: r)
  end.

(* shared by both stacks: h = header length (4 or 12) *)
Definition cert_dec_at (h : N) (site0 : nat) (data : bytes) : res (list bytes) :=
  b4 <-- idx data h (site0 + 10) ;; b5 <-- idx data (h + 1) (site0 + 11) ;; b6 <-- idx data (h + 2) (site0 + 12) ;;
  let certsLen := be24 b4 b5 b6 in
  if negb (u32 (len data) =? u32 (certsLen + h + 3)) then Reject else
  d <-- from data (h + 3) (site0 + 13) ;;
  n <-- cert_count site0 (S (length d)) certsLen d O ;;
  d <-- from data (h + 3) (site0 + 14) ;;
  cert_collect site0 n d.

Definition T_cert_dec (data : bytes) : res (list bytes) :=
  if len data <? 7 then Reject else cert_dec_at 4 120 data.

(* ---------- certificateRequestMsg ---------- *)
Definition cas_enc (cas : list bytes) : bytes := flat_map vec16 cas.
Definition creq_body_enc (types : bytes) (cas : list bytes) : bytes :=
  u8 (len types) ++ types ++ vec16 (cas_enc cas).
Definition T_creq_enc (m : bytes * list bytes) : bytes :=
  t_hdr tCertificateRequest (creq_body_enc (fst m) (snd m)).

Fixpoint cas_loop (site0 : nat) (fuel : nat) (cas : bytes) : res (list bytes) :=
  match cas with
  | [] => Ok []
  | _ =>
      match fuel with
      | O => Panic 999
      | S k =>
          if len cas <? 2 then Reject else
          c0 <-- idx cas 0 (site0 + 1) ;; c1 <-- idx cas 1 (site0 + 2) ;;
          let caLen := be16 c0 c1 in
          cas1 <-- from cas 2 (site0 + 3) ;;
          if len cas1 <? caLen then Reject else
          ca <-- sub cas1 0 caLen (site0 + 4) ;;
          cas2 <-- from cas1 caLen (site0 + 5) ;;
          r <-- cas_loop site0 k cas2 ;;
          Ok (ca :: r)
      end
  end.

(* after the outer-length check; data = everything after the header *)
Definition creq_dec_at (h : N) (site0 : nat) (data0 : bytes) : res (bytes * list bytes) :=
  n <-- idx data0 h (site0 + 6) ;;
  data <-- from data0 (h + 1) (site0 + 7) ;;
  if (n =? 0) || (len data <=? n) then Reject else
  (* m.certificateTypes = make([]byte, n); copy(m.certificateTypes, data) != n *)
  let types := firstn (N.to_nat n) data in
  if negb (len types =? n) then Reject else
  data <-- from data n (site0 + 8) ;;
  if len data <? 2 then Reject else
  d0 <-- idx data 0 (site0 + 9) ;; d1 <-- idx data 1 (site0 + 10) ;;
  let casLength := be16 d0 d1 in
  data <-- from data 2 (site0 + 11) ;;
  if len data <? casLength then Reject else
  (* cas := make([]byte, casLength); copy(cas, data) *)
  let cas := firstn (N.to_nat casLength) data in
  data <-- from data casLength (site0 + 12) ;;
  l <-- cas_loop site0 (S (length cas)) cas ;;
  if empty data then Ok (types, l) else Reject.

Definition T_creq_dec (data : bytes) : res (bytes * list bytes) :=
  if len data <? 5 then Reject else
  b1 <-- idx data 1 131 ;; b2 <-- idx data 2 132 ;; b3 <-- idx data 3 133 ;;
  let length := be24 b1 b2 b3 in
  if negb (u32 (u32 (len data) + 4294967296 - 4) =? length) then Reject else
  creq_dec_at 4 140 data.

(* ---------- serverHelloMsg ---------- *)
Definition T_sh_enc (m : shello) : bytes := t_hdr tServerHello (sh_body_enc m).
Definition T_sh_dec (data : bytes) : res shello :=
  of_opt ('(_, s) <- take 4 data ;; sh_body_dec s).

(* ---------- clientHelloMsg ---------- *)
Definition T_ch_enc (m : chello) : bytes := t_hdr tClientHello (ch_body_enc false m).
Definition T_ch_dec (data : bytes) : res chello :=
  of_opt ('(_, s) <- take 4 data ;; ch_body_dec false true s).
