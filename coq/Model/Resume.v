(* Session resumption over histories of connections (both stacks share this code):
     client : loadSession (lookup by destination, re-validation of the recorded certificates),
              serverResumedSession / processServerHello, createNewSession (one session stored under
              its identifier and under the destination), deferred removal after a failed handshake
                                                      tlcp|dtlcp/handshake_client.go
     server : checkForResumption (identifier, version, suite still offered and enabled,
              client-authentication policy), createSessionState          handshake_server.go
     caches : the LRU of Model/Lru.v (values are session numbers)
   A session is a number into a global table of immutable attributes; new sessions get the next
   number (the implementation draws 32 random bytes: the harness numbers identifiers in order of
   first appearance).  X.509 verdicts and the outcome of the full handshake are inputs. *)
From V Require Export Model.Lru Model.Auth.
Open Scope N_scope.

Record sattr := mkSA { sa_suite : N; sa_srv : N; sa_ncerts : nat; sa_forged : bool }.

Record world := mkW {
  ccache : lru;                       (* the client's cache *)
  scaches : list (N * lru);           (* one cache per server *)
  table : list (N * sattr);           (* every session ever created, by number *)
  next : N }.                         (* number of the next new session *)

Definition key_dst (j : N) : key := 2 * j + 2.
Definition key_id (i : N) : key := 2 * i + 1.

Fixpoint tlookup (i : N) (t : list (N * sattr)) : option sattr :=
  match t with [] => None | (k, a) :: r => if i =? k then Some a else tlookup i r end.

Fixpoint sc_get (j : N) (l : list (N * lru)) : option lru :=
  match l with [] => None | (k, c) :: r => if j =? k then Some c else sc_get j r end.
Fixpoint sc_set (j : N) (c : lru) (l : list (N * lru)) : list (N * lru) :=
  match l with
  | [] => [(j, c)]
  | (k, c0) :: r => if j =? k then (k, c) :: r else (k, c0) :: sc_set j c r
  end.

Definition memN (x : N) (l : list N) : bool := existsb (N.eqb x) l.

(* per-connection inputs *)
Record conn := mkConn {
  k_srv : N;                  (* which server (destination) *)
  k_offer : list N;           (* the suites the client offers now *)
  k_revalid : bool;           (* oracle: the recorded server certificates pass under the client's current configuration (or verification is off) *)
  k_srv_suites : list N;      (* the suites the server enables now *)
  k_srv_keys : bool;
  k_policy : policy;
  k_sess_chain_ok : bool;     (* oracle: the client certificates recorded in the session verify under the server's current options *)
  k_full_ok : bool;           (* a full handshake between the two configurations succeeds *)
  k_full_suite : N;           (* ... on this suite *)
  k_full_ncerts : nat }.      (* ... with this many client certificates seen by the server *)

Record report := mkR {
  r_offered : option N;       (* session number whose identifier the client put in its hello *)
  r_resumed : bool;
  r_ok : bool;
  r_new : option N }.         (* number of the session created by a successful full handshake *)

Definition is_ecdhe (s : N) : bool := (s =? 57425) || (s =? 57361).

Definition connect (w : world) (k : conn) : world * report :=
  let j := k_srv k in
  (* client: loadSession *)
  let '(cc1, got) := get (ccache w) (key_dst j) in
  let offered := match got with
                 | Some i => if k_revalid k then Some i else None
                 | None => None
                 end in
  (* server: checkForResumption *)
  let sc := match sc_get j (scaches w) with Some c => c | None => lru_init 64 end in
  let '(sc1, resumable) :=
    match offered with
    | None => (sc, false)
    | Some i =>
        let '(c', r) := get sc (key_id i) in
        match r, tlookup i (table w) with
        | Some i', Some a =>
            (c', (i' =? i) && memN (sa_suite a) (k_offer k) && memN (sa_suite a) (k_srv_suites k) &&
                 k_srv_keys k &&
                 session_satisfies (k_policy k) (mkSeV (sa_ncerts a) (k_sess_chain_ok k) (is_ecdhe (sa_suite a))))
        | _, _ => (c', false)
        end
    end in
  if resumable then
    (mkW cc1 (sc_set j sc1 (scaches w)) (table w) (next w), mkR offered true true None)
  else if k_full_ok k then
    let n := next w in
    let a := mkSA (k_full_suite k) j (k_full_ncerts k) false in
    let sc2 := put sc1 (key_id n) n in
    let cc2 := put (put cc1 (key_id n) n) (key_dst j) n in
    (mkW cc2 (sc_set j sc2 (scaches w)) ((n, a) :: table w) (n + 1), mkR offered false true (Some n))
  else
    (* failed handshake: a session that was offered is removed *)
    let cc2 := match offered with
               | Some i => del (del cc1 (key_dst j)) (key_id i)
               | None => cc1
               end in
    (mkW cc2 (sc_set j sc1 (scaches w)) (table w) (next w), mkR offered false false None).

(* events between connections *)
Inductive event :=
| Connect (k : conn)
| ServerCacheLoss (j : N) (cap : nat)         (* the server restarts with an empty cache *)
| ForgeClientSession (j : N) (suite : N).     (* the client's cache gets a session for destination j whose identifier no server knows *)

Definition step (w : world) (e : event) : world * option report :=
  match e with
  | Connect k => let '(w', r) := connect w k in (w', Some r)
  | ServerCacheLoss j cap => (mkW (ccache w) (sc_set j (lru_init cap) (scaches w)) (table w) (next w), None)
  | ForgeClientSession j suite =>
      let n := next w in
      (mkW (put (ccache w) (key_dst j) n) (scaches w) ((n, mkSA suite j 0 true) :: table w) (n + 1), None)
  end.

Fixpoint run_events (w : world) (es : list event) : world * list (option report) :=
  match es with
  | [] => (w, [])
  | e :: t => let '(w1, r) := step w e in
              let '(w2, rs) := run_events w1 t in (w2, r :: rs)
  end.

Definition world_init (ccap : nat) (scaps : list (N * nat)) : world :=
  mkW (lru_init ccap) (map (fun '(j, c) => (j, lru_init c)) scaps) [] 1.
