(* C13 — concurrency model.
   1. the vocabulary of the generated lock/access skeleton (Model/Skeleton.v is produced from
      the Go sources by tools/skel on every run);
   2. a small-step interleaving semantics of threads over non-reentrant mutexes;
   3. the static disciplines (ordered locking, lockset) and their decidable checkers on a skeleton;
   4. three small semantic models: the write path, the handshake latch, the Close interlock.
   Definitions only; proofs are in Proofs/ConcProofs.v. *)
From Coq Require Import List NArith Arith Bool String.
Import ListNotations.
Open Scope string_scope.
Open Scope list_scope.

(* ------------------------------------------------------------------ 1. skeleton vocabulary *)

(* which object a field belongs to: the connection, its read half, its write half, "the
   receiver of this halfConn method" (substituted at the call), the session cache, a cache
   entry, the protocol-switch connection; ONone = no receiver instance *)
Inductive own := OConn | OIn | OOut | OSelf | OCache | OEntry | OPa | ONone.

Inductive mutex := MHandshake | MIn | MOut | MSelf | MCache | MPa | MOther.

Inductive rw := R | W.

Inductive aop := ALoad | AStore | ACas | AAdd | ASwap.

Inductive ev :=
| Lock (m : mutex)
| Unlock (m : mutex)
| CondLock (m : mutex)            (* Lock nested in a branch or loop: refused by the checkers *)
| CondUnlock (m : mutex)
| Atomic (o : aop) (w : own) (f : N)   (* sync/atomic operation on field f *)
| Acc (k : rw) (w : own) (f : N)       (* plain read / write of field f *)
| Block (b : N)                        (* blocking I/O call, index into sk_blocks *)
| Spin (w : own) (f : N)               (* busy-wait loop on an atomic load of field f *)
| Call (inst : own) (g : N)            (* call of function g; inst = which halfConn is the receiver *)
| LoopCall (inst : own) (g : N)        (* the same inside a for / range statement: the callee runs once per
                                          iteration; the trace unrolls it twice, so that a critical section the
                                          callee opens and closes shows up as two sections *)
| Go (g : N)                           (* go statement *)
| Guard (g : N)                        (* what follows (in this function) runs only if g() returned nil / true *)
| EndGuard (g : N)
| Defer (e : ev).                      (* runs at function exit, last deferred first *)

Record fn := mkFn { fn_name : string; fn_entry : bool; fn_summary : bool; fn_body : list ev }.

Record skeleton := mkSkeleton {
  sk_name : string;
  sk_fns : list fn;
  sk_blocks : list string;
  sk_fields : list (string * list string);
  sk_classes : list (string * list N) }.

Definition mutex_eqb (a b : mutex) : bool :=
  match a, b with
  | MHandshake, MHandshake | MIn, MIn | MOut, MOut | MSelf, MSelf | MCache, MCache | MPa, MPa | MOther, MOther => true
  | _, _ => false
  end.

Definition own_eqb (a b : own) : bool :=
  match a, b with
  | OConn, OConn | OIn, OIn | OOut, OOut | OSelf, OSelf | OCache, OCache | OEntry, OEntry | OPa, OPa | ONone, ONone => true
  | _, _ => false
  end.

Definition memM (m : mutex) (l : list mutex) : bool := existsb (mutex_eqb m) l.
Definition memN (x : N) (l : list N) : bool := existsb (N.eqb x) l.
Definition remove_m (m : mutex) (h : list mutex) : list mutex := filter (fun x => negb (mutex_eqb x m)) h.
Definition removeN (x : N) (l : list N) : list N := filter (fun y => negb (N.eqb y x)) l.

(* ------------------------------------------------------------------ 2. the machine *)

Section Machine.
  Variable A : Type.                      (* labels of the actions that are not lock operations *)

  Inductive act := ALock (m : mutex) | AUnlock (m : mutex) | AEv (a : A).

  (* a thread: the mutexes it holds and the code it still has to run *)
  Definition thread := (list mutex * list act)%type.
  Definition state := nat -> thread.

  Definition upd (s : state) (i : nat) (t : thread) : state :=
    fun k => if Nat.eqb k i then t else s k.

  (* sync.Mutex is not reentrant: Lock needs the mutex held by nobody, the caller included *)
  Definition free (s : state) (m : mutex) : Prop := forall k, ~ In m (fst (s k)).

  Inductive step (s : state) : state -> Prop :=
  | step_lock : forall i h m r, s i = (h, ALock m :: r) -> free s m -> step s (upd s i (m :: h, r))
  | step_unlock : forall i h m r, s i = (h, AUnlock m :: r) -> step s (upd s i (remove_m m h, r))
  | step_ev : forall i h a r, s i = (h, AEv a :: r) -> step s (upd s i (h, r)).

  Inductive reachable (s0 : state) : state -> Prop :=
  | reach_refl : reachable s0 s0
  | reach_step : forall s s', reachable s0 s -> step s s' -> reachable s0 s'.

  Definition init (prog : nat -> list act) : state := fun i => ([], prog i).

  (* --- deadlock by lock order: a non-empty set of threads each waiting for a mutex held
         by a thread of the set *)
  Definition waits (s : state) (i : nat) (m : mutex) : Prop := exists h r, s i = (h, ALock m :: r).
  Definition holds (s : state) (j : nat) (m : mutex) : Prop := In m (fst (s j)).
  Definition lock_cycle (s : state) (D : list nat) : Prop :=
    D <> [] /\ forall i, In i D -> exists m j, waits s i m /\ In j D /\ holds s j m.

  (* static discipline: every acquisition has a rank above every mutex already held *)
  Variable rank : mutex -> nat.
  Fixpoint ordered (h : list mutex) (r : list act) : bool :=
    match r with
    | [] => true
    | ALock m :: r' => forallb (fun x => Nat.ltb (rank x) (rank m)) h && ordered (m :: h) r'
    | AUnlock m :: r' => ordered (remove_m m h) r'
    | AEv _ :: r' => ordered h r'
    end.

  (* --- data races: two threads whose next actions are conflicting accesses *)
  Variable conflict : A -> A -> bool.

  Fixpoint annot (h : list mutex) (r : list act) : list (A * list mutex) :=
    match r with
    | [] => []
    | ALock m :: r' => annot (m :: h) r'
    | AUnlock m :: r' => annot (remove_m m h) r'
    | AEv a :: r' => (a, h) :: annot h r'
    end.

  (* static discipline: conflicting accesses of different threads share a held mutex *)
  Definition protected (prog : nat -> list act) : Prop :=
    forall i j a H b K, i <> j ->
      In (a, H) (annot [] (prog i)) -> In (b, K) (annot [] (prog j)) ->
      conflict a b = true -> exists m, In m H /\ In m K.

  Definition race (s : state) : Prop :=
    exists i j hi a ri hj b rj, i <> j /\ s i = (hi, AEv a :: ri) /\ s j = (hj, AEv b :: rj) /\ conflict a b = true.
End Machine.

Arguments ALock {A}. Arguments AUnlock {A}. Arguments AEv {A}.

(* ------------------------------------------------------------------ 3. skeleton -> threads, checkers *)

(* one access as the lockset analysis sees it *)
Record access := mkAccess {
  a_own : own; a_fld : N;
  a_write : bool; a_atomic : bool;
  a_site : N;        (* function containing the access *)
  a_hs : bool;       (* inside the dynamic extent of Conn.handshakeContext (the handshake phase) *)
  a_done : bool }.   (* after this thread observed the handshake completed: Guard on Handshake /
                        HandshakeContext / handshakeContext (returned nil) or handshakeComplete() (true) *)

Inductive label :=
| LAcc (a : access)
| LBlock (b : N) (site : N) (hs : bool)
| LSpin (o : own) (f : N) (site : N).

Definition subst_o (inst o : own) : own := match o with OSelf => match inst with ONone => OSelf | _ => inst end | _ => o end.
Definition subst_m (inst : own) (m : mutex) : mutex :=
  match m with MSelf => match inst with OIn => MIn | OOut => MOut | _ => MSelf end | _ => m end.

Record marks := mkMarks { mk_hs : list N; mk_done : list N }.

Definition tr := (list (act label) * list (list (act label)))%type.   (* main trace, spawned goroutines *)

Definition one (call : own -> N -> list N -> tr) (mk : marks) (inst : own) (hs : bool) (gs : list N) (site : N) (e : ev) : tr :=
  let done := existsb (fun g => memN g (mk_done mk)) gs in
  match e with
  | Lock m | CondLock m => ([ALock (subst_m inst m)], [])
  | Unlock m | CondUnlock m => ([AUnlock (subst_m inst m)], [])
  | Atomic o w f =>
      ([AEv (LAcc (mkAccess (subst_o inst w) f (match o with ALoad => false | _ => true end) true site hs done))], [])
  | Acc k w f =>
      ([AEv (LAcc (mkAccess (subst_o inst w) f (match k with W => true | R => false end) false site hs done))], [])
  | Block b => ([AEv (LBlock b site hs)], [])
  | Spin w f => ([AEv (LSpin (subst_o inst w) f site)], [])
  | Call i g => call (subst_o inst i) g gs
  | LoopCall i g => let (m, sp) := call (subst_o inst i) g gs in (m ++ m, sp ++ sp)
  | Go g => let (m, sp) := call ONone g gs in ([], m :: sp)
  | Guard _ | EndGuard _ | Defer _ => ([], [])
  end.

Fixpoint run_list (call : own -> N -> list N -> tr) (mk : marks) (inst : own) (hs : bool) (gs : list N) (site : N) (es : list ev) : tr :=
  match es with
  | [] => ([], [])
  | e :: es' =>
      let (m1, s1) := one call mk inst hs gs site e in
      let (m2, s2) := run_list call mk inst hs gs site es' in
      (m1 ++ m2, s1 ++ s2)
  end.

(* inlining: a function already on the call stack is not entered again (recursion is
   unrolled once); Defer events run at function exit, last first; guards are scoped to the
   function that sets them and inherited by what it calls *)
Fixpoint flat (fns : list fn) (mk : marks) (fuel : nat) (inst : own) (hs : bool) (gs : list N) (stack : list N) (g : N) {struct fuel} : tr :=
  match fuel with
  | O => ([], [])
  | S k =>
      if memN g stack then ([], []) else
      match nth_error fns (N.to_nat g) with
      | None => ([], [])
      | Some f =>
          let hs' := hs || memN g (mk_hs mk) in
          let call := fun i g' gs' => flat fns mk k i hs' gs' (g :: stack) g' in
          (fix body (es : list ev) (gs : list N) (ds : list ev) {struct es} : tr :=
             match es with
             | [] => run_list call mk inst hs' gs g ds
             | Defer e :: es' => body es' gs (e :: ds)
             | Guard x :: es' => body es' (x :: gs) ds
             | EndGuard x :: es' => body es' (removeN x gs) ds
             | e :: es' =>
                 let (m1, s1) := one call mk inst hs' gs g e in
                 let (m2, s2) := body es' gs ds in
                 (m1 ++ m2, s1 ++ s2)
             end) (fn_body f) gs []
      end
  end.

Definition FUEL : nat := 24.

Fixpoint index_of (name : string) (fns : list fn) (i : N) : list N :=
  match fns with
  | [] => []
  | f :: r => (if String.eqb (fn_name f) name then [i] else []) ++ index_of name r (i + 1)
  end.

(* functions whose name after the package prefix is in the list *)
Definition ids_named (sk : skeleton) (names : list string) : list N :=
  flat_map (fun n => index_of (sk_name sk ++ "." ++ n)%string (sk_fns sk) 0%N) names.

Definition marks_of (sk : skeleton) : marks :=
  mkMarks (ids_named sk ["Conn.handshakeContext"])
          (ids_named sk ["Conn.Handshake"; "Conn.HandshakeContext"; "Conn.handshakeContext"; "Conn.handshakeComplete"]).

Definition entry_threads (sk : skeleton) (e : N) : list (list (act label)) :=
  let (m, sp) := flat (sk_fns sk) (marks_of sk) FUEL ONone false [] [] e in m :: sp.

Definition class_threads (sk : skeleton) (entries : list N) : list (list (act label)) :=
  flat_map (entry_threads sk) entries.

(* an assignment of code to threads in which every thread runs (the main trace or a spawned
   goroutine of) one exported method of the class, or nothing *)
Definition runs_class (sk : skeleton) (c : string * list N) (prog : nat -> list (act label)) : Prop :=
  forall i, In (prog i) (class_threads sk (snd c)) \/ prog i = [].

(* --- structured locking: no conditional lock operation anywhere in the table *)
Fixpoint ev_structured (e : ev) : bool :=
  match e with
  | CondLock _ | CondUnlock _ => false
  | Defer e' => ev_structured e'
  | _ => true
  end.
Definition structured_ok (sk : skeleton) : bool :=
  forallb (fun f => forallb ev_structured (fn_body f)) (sk_fns sk).

(* --- lock order: handshakeMutex < in < out; the cache mutex, the pa lock and any other
       mutex are innermost *)
Definition c13_rank (m : mutex) : nat :=
  match m with MHandshake => 1 | MIn => 2 | MOut => 3 | MCache => 4 | MPa => 4 | MOther => 4 | MSelf => 5 end.

(* leaves: while the cache mutex or the pa lock is held nothing is acquired *)
Fixpoint leaf_ok (h : list mutex) (r : list (act label)) : bool :=
  match r with
  | [] => true
  | ALock m :: r' => negb (memM MCache h || memM MPa h) && leaf_ok (m :: h) r'
  | AUnlock m :: r' => leaf_ok (remove_m m h) r'
  | AEv _ :: r' => leaf_ok h r'
  end.

Definition thread_order_ok (t : list (act label)) : bool := ordered label c13_rank [] t && leaf_ok [] t.

Definition lock_order_ok (sk : skeleton) : bool :=
  structured_ok sk &&
  forallb (fun c => forallb thread_order_ok (class_threads sk (snd c))) (sk_classes sk).

(* --- lockset *)

(* Accesses that are unlocked BY DESIGN.  Every entry is named and justified in
   Proofs/C13Inst.v (c13_exemptions). *)
Inductive exemption :=
| ExHandshakePhase                                  (* handshake phase vs. after observed completion *)
| ExField (pkg : string) (o : own) (field : string). (* one field of one package *)

(* Fields whose accesses FAIL the lockset discipline and are reported as findings; they are
   removed from the obligation by name and each is proved to fail (C13_findings_are_failures). *)
Record finding := mkFinding { fd_id : string; fd_pkg : string; fd_own : own; fd_field : string }.

Inductive rex := RPhase | RField (o : own) (f : N).

Definition struct_of (o : own) : string :=
  match o with
  | OConn => "Conn" | OIn | OOut | OSelf => "halfConn" | OCache => "lruSessionCache"
  | OEntry => "lruSessionCacheEntry" | OPa => "ProtocolSwitchServerConn" | ONone => "?" end.

Fixpoint assoc_s (k : string) (l : list (string * list string)) : list string :=
  match l with [] => [] | (k', v) :: r => if String.eqb k k' then v else assoc_s k r end.

Fixpoint pos_s (k : string) (l : list string) (i : N) : list N :=
  match l with [] => [] | x :: r => if String.eqb x k then [i] else pos_s k r (i + 1) end.

Definition field_ids (sk : skeleton) (pkg : string) (o : own) (field : string) : list rex :=
  if String.eqb pkg (sk_name sk) then map (RField o) (pos_s field (assoc_s (struct_of o) (sk_fields sk)) 0%N) else [].

Definition resolve_ex (sk : skeleton) (x : exemption) : list rex :=
  match x with ExHandshakePhase => [RPhase] | ExField p o f => field_ids sk p o f end.

Definition resolve_fd (sk : skeleton) (x : finding) : list rex := field_ids sk (fd_pkg x) (fd_own x) (fd_field x).

Definition resolve (sk : skeleton) (ex : list exemption) (fds : list finding) : list rex :=
  flat_map (resolve_ex sk) ex ++ flat_map (resolve_fd sk) fds.

Definition exempt1 (x : rex) (a b : access) : bool :=
  match x with
  | RPhase => a_hs a && a_done b && negb (a_hs b)
  | RField o f => own_eqb (a_own a) o && N.eqb (a_fld a) f
  end.

Definition exempt (rx : list rex) (a b : access) : bool :=
  existsb (fun x => exempt1 x a b || exempt1 x b a) rx.

Definition conflict (rx : list rex) (x y : label) : bool :=
  match x, y with
  | LAcc a, LAcc b =>
      own_eqb (a_own a) (a_own b) && N.eqb (a_fld a) (a_fld b)
      && (a_write a || a_write b)
      && negb (a_atomic a && a_atomic b)
      && negb (exempt rx a b)
  | _, _ => false
  end.

Definition share (H K : list mutex) : bool := existsb (fun m => memM m K) H.

Definition access_eqb (a b : access) : bool :=
  own_eqb (a_own a) (a_own b) && N.eqb (a_fld a) (a_fld b) && Bool.eqb (a_write a) (a_write b)
  && Bool.eqb (a_atomic a) (a_atomic b) && N.eqb (a_site a) (a_site b) && Bool.eqb (a_hs a) (a_hs b) && Bool.eqb (a_done a) (a_done b).

Fixpoint held_eqb (H K : list mutex) : bool :=
  match H, K with
  | [], [] => true
  | x :: H', y :: K' => mutex_eqb x y && held_eqb H' K'
  | _, _ => false
  end.

Definition rec_eqb (x y : label * list mutex) : bool :=
  match fst x, fst y with
  | LAcc a, LAcc b => access_eqb a b && held_eqb (snd x) (snd y)
  | _, _ => false
  end.

Definition is_acc (x : label * list mutex) : bool := match fst x with LAcc _ => true | _ => false end.

Fixpoint dedup (l : list (label * list mutex)) (acc : list (label * list mutex)) : list (label * list mutex) :=
  match l with
  | [] => acc
  | x :: r => if existsb (rec_eqb x) acc then dedup r acc else dedup r (x :: acc)
  end.

(* every access record (access, mutexes held) of every thread of a class, once *)
Definition class_records (sk : skeleton) (entries : list N) : list (label * list mutex) :=
  dedup (filter is_acc (flat_map (annot label []) (class_threads sk entries))) [].

Definition pair_ok (rx : list rex) (x y : label * list mutex) : bool :=
  negb (conflict rx (fst x) (fst y)) || share (snd x) (snd y).

Definition records_ok (rx : list rex) (rs : list (label * list mutex)) : bool :=
  forallb (fun x => forallb (pair_ok rx x) rs) rs.

(* side condition of ExHandshakePhase: a plain write made during the handshake phase is made
   by the thread that runs the handshake, i.e. with handshakeMutex held *)
Definition phase_rec_ok (x : label * list mutex) : bool :=
  match fst x with
  | LAcc a => negb (a_hs a && a_write a && negb (a_atomic a)) || memM MHandshake (snd x)
  | _ => true
  end.

Definition lockset_ok (sk : skeleton) (ex : list exemption) (fds : list finding) : bool :=
  structured_ok sk &&
  forallb (fun c => let rs := class_records sk (snd c) in
                    records_ok (resolve sk ex fds) rs && forallb phase_rec_ok rs) (sk_classes sk).

(* --- the write section: every transport write an application Write/WriteTo performs
       outside the handshake phase happens with the write-half mutex held, and all of them in
       ONE critical section (the n-th acquisition of `out` of that thread, same n for all) *)
Definition is_emission (sk : skeleton) (b : N) : bool :=
  let n := nth (N.to_nat b) (sk_blocks sk) "" in
  String.eqb n "conn.Write" || String.eqb n "pconn.WriteTo".

Fixpoint emissions (sk : skeleton) (h : list mutex) (n : nat) (r : list (act label)) : list (nat * bool) :=
  match r with
  | [] => []
  | ALock m :: r' => emissions sk (m :: h) (if mutex_eqb m MOut then S n else n) r'
  | AUnlock m :: r' => emissions sk (remove_m m h) n r'
  | AEv (LBlock b _ false) :: r' => (if is_emission sk b then [(n, memM MOut h)] else []) ++ emissions sk h n r'
  | AEv _ :: r' => emissions sk h n r'
  end.

Definition one_section (l : list (nat * bool)) : bool :=
  match l with
  | [] => false                      (* a Write that writes nothing is not a Write *)
  | (n, _) :: _ => forallb (fun x => Nat.eqb (fst x) n && snd x) l
  end.

Definition main_thread (sk : skeleton) (e : N) : list (act label) :=
  fst (flat (sk_fns sk) (marks_of sk) FUEL ONone false [] [] e).

Definition writer_entries (sk : skeleton) : list N := ids_named sk ["Conn.Write"; "Conn.WriteTo"].

Definition write_section_ok (sk : skeleton) : bool :=
  forallb (fun e => one_section (emissions sk [] 0 (main_thread sk e))) (writer_entries sk).

(* --- Close waits (datagram stack): Close sets the closed bit, and touches no mutable
       connection state (plain write, or anything under a mutex) before it has spun on
       activeCall until the calls in flight have left *)
Fixpoint before_spin_ok (r : list (act label)) : bool :=
  match r with
  | [] => false                                  (* no spin-wait at all *)
  | AEv (LSpin _ _ _) :: _ => true
  | AEv (LAcc a) :: r' => (a_atomic a || negb (a_write a)) && before_spin_ok r'
  | AEv (LBlock _ _ _) :: r' => before_spin_ok r'
  | ALock _ :: _ | AUnlock _ :: _ => false
  end.

Definition close_waits_ok (sk : skeleton) : bool :=
  forallb (fun e => before_spin_ok (main_thread sk e)) (ids_named sk ["Conn.Close"]).

(* --- reporting (not used in theorems): the unprotected conflicting pairs, by name *)
Definition own_prefix (o : own) : string :=
  match o with
  | OConn => "Conn" | OIn => "in" | OOut => "out" | OSelf => "self" | OCache => "lruSessionCache"
  | OEntry => "lruSessionCacheEntry" | OPa => "ProtocolSwitchServerConn" | ONone => "?" end.

Definition field_name (sk : skeleton) (o : own) (f : N) : string :=
  (own_prefix o ++ "." ++ nth (N.to_nat f) (assoc_s (struct_of o) (sk_fields sk)) "?")%string.

Definition fn_name_of (sk : skeleton) (g : N) : string :=
  match nth_error (sk_fns sk) (N.to_nat g) with Some f => fn_name f | None => "?" end.

Record failure := mkFailure { fl_class : string; fl_field : string; fl_site1 : string; fl_held1 : list mutex;
                              fl_site2 : string; fl_held2 : list mutex }.

Definition failures_of (sk : skeleton) (rx : list rex) (c : string * list N) : list failure :=
  let rs := class_records sk (snd c) in
  flat_map (fun x => flat_map (fun y =>
    if pair_ok rx x y then [] else
    match fst x, fst y with
    | LAcc a, LAcc b => [mkFailure (fst c) (field_name sk (a_own a) (a_fld a))
                           (fn_name_of sk (a_site a)) (snd x) (fn_name_of sk (a_site b)) (snd y)]
    | _, _ => []
    end) rs) rs.

Definition lockset_failures (sk : skeleton) (ex : list exemption) (fds : list finding) : list failure :=
  flat_map (failures_of sk (resolve sk ex fds)) (sk_classes sk).

Fixpoint dedup_s (l : list string) (acc : list string) : list string :=
  match l with
  | [] => rev acc
  | x :: r => if existsb (String.eqb x) acc then dedup_s r acc else dedup_s r (x :: acc)
  end.

(* "<field>" of the fields with at least one unprotected conflicting pair *)
Definition failing_fields (sk : skeleton) (ex : list exemption) (fds : list finding) : list string :=
  dedup_s (map fl_field (lockset_failures sk ex fds)) [].

(* ------------------------------------------------------------------ 4. semantic models *)

(* 4a. the write path.  Thread i performs the Writes prog i in order; a Write takes the
   write-half mutex, emits the records of its payload one by one, releases.  (That the real
   Write has this shape is write_section_ok on the generated skeleton.) *)
Section WriteModel.
  Variable rcd : Type.
  Variable prog : nat -> list (list rcd).

  Record wthread := mkW { w_done : nat; w_pc : option (list rcd) }.
  Record wstate := mkWS { w_th : nat -> wthread; w_lock : option nat; w_wire : list rcd }.

  Definition wupd (f : nat -> wthread) (i : nat) (t : wthread) : nat -> wthread :=
    fun k => if Nat.eqb k i then t else f k.

  Inductive wstep (s : wstate) : wstate -> Prop :=
  | w_acquire : forall i p,
      w_pc (w_th s i) = None -> w_lock s = None -> nth_error (prog i) (w_done (w_th s i)) = Some p ->
      wstep s (mkWS (wupd (w_th s) i (mkW (w_done (w_th s i)) (Some p))) (Some i) (w_wire s))
  | w_emit : forall i r rs,
      w_pc (w_th s i) = Some (r :: rs) ->
      wstep s (mkWS (wupd (w_th s) i (mkW (w_done (w_th s i)) (Some rs))) (w_lock s) (w_wire s ++ [r]))
  | w_release : forall i,
      w_pc (w_th s i) = Some [] ->
      wstep s (mkWS (wupd (w_th s) i (mkW (S (w_done (w_th s i))) None)) None (w_wire s)).

  Inductive wreach : wstate -> Prop :=
  | wreach_init : wreach (mkWS (fun _ => mkW 0 None) None [])
  | wreach_step : forall s s', wreach s -> wstep s s' -> wreach s'.

  Definition payload (x : nat * nat) : list rcd := nth (snd x) (prog (fst x)) [].

  (* the wire is the concatenation of the whole payloads of the completed Writes, each exactly
     once, followed by the records emitted so far by the Write in progress (if any) *)
  Definition whole (s : wstate) : Prop :=
    exists order pre,
      NoDup order
      /\ (forall i k, In (i, k) order <-> k < w_done (w_th s i))
      /\ w_wire s = List.concat (map payload order) ++ pre
      /\ match w_lock s with
         | None => pre = [] /\ forall i, w_pc (w_th s i) = None
         | Some i => exists rem, w_pc (w_th s i) = Some rem
                                 /\ nth_error (prog i) (w_done (w_th s i)) = Some (pre ++ rem)
                                 /\ forall j, j <> i -> w_pc (w_th s j) = None
         end.
End WriteModel.

(* 4b. the handshake latch (handshakeContext): fast path on the status flag; otherwise take
   handshakeMutex, return the latched error or nil if already complete, else run handshakeFn
   once and latch its result. *)
Section HandshakeModel.
  Variable E : Type.
  Variable outcome : nat -> option E.      (* what handshakeFn returns if thread i is the one that runs it *)

  Inductive hpc := HStart | HWantLock | HLocked | HRunning | HDone (r : option E).

  Record hstate := mkH { h_pc : nat -> hpc; h_mutex : option nat; h_status : bool; h_err : option E;
                         h_runs : nat }.

  Definition hupd (f : nat -> hpc) (i : nat) (p : hpc) : nat -> hpc := fun k => if Nat.eqb k i then p else f k.

  Inductive hstep (s : hstate) : hstate -> Prop :=
  | h_fast : forall i, h_pc s i = HStart -> h_status s = true ->
      hstep s (mkH (hupd (h_pc s) i (HDone None)) (h_mutex s) (h_status s) (h_err s) (h_runs s))
  | h_slow : forall i, h_pc s i = HStart -> h_status s = false ->
      hstep s (mkH (hupd (h_pc s) i HWantLock) (h_mutex s) (h_status s) (h_err s) (h_runs s))
  | h_lock : forall i, h_pc s i = HWantLock -> h_mutex s = None ->
      hstep s (mkH (hupd (h_pc s) i HLocked) (Some i) (h_status s) (h_err s) (h_runs s))
  | h_latched_err : forall i e, h_pc s i = HLocked -> h_err s = Some e ->
      hstep s (mkH (hupd (h_pc s) i (HDone (Some e))) None (h_status s) (h_err s) (h_runs s))
  | h_latched_ok : forall i, h_pc s i = HLocked -> h_err s = None -> h_status s = true ->
      hstep s (mkH (hupd (h_pc s) i (HDone None)) None (h_status s) (h_err s) (h_runs s))
  | h_begin : forall i, h_pc s i = HLocked -> h_err s = None -> h_status s = false ->
      hstep s (mkH (hupd (h_pc s) i HRunning) (h_mutex s) (h_status s) (h_err s) (S (h_runs s)))
  | h_finish : forall i, h_pc s i = HRunning ->
      hstep s (mkH (hupd (h_pc s) i (HDone (outcome i))) None
                   (match outcome i with None => true | Some _ => false end) (outcome i) (h_runs s)).

  Inductive hreach : hstate -> Prop :=
  | hreach_init : hreach (mkH (fun _ => HStart) None false None 0)
  | hreach_step : forall s s', hreach s -> hstep s s' -> hreach s'.
End HandshakeModel.

(* 4c. the Close interlock of the datagram stack.  A caller enters by CAS (refused once the
   closed bit is set), works, leaves by decrementing; Close sets the bit, then waits until the
   counter is zero, then cleans up. *)
Section CloseModel.
  Inductive cpc := CIdle | CInside | CLeft | CRefused.
  Inductive kpc := KStart | KWaiting | KCleaning | KDone.

  Record cstate := mkC { c_pc : nat -> cpc; c_closer : kpc; c_closed : bool; c_count : nat;
                         c_inside : list nat }.     (* ghost: who is inside *)

  Definition cupd (f : nat -> cpc) (i : nat) (p : cpc) : nat -> cpc := fun k => if Nat.eqb k i then p else f k.

  Inductive cstep (s : cstate) : cstate -> Prop :=
  | c_enter : forall i, c_pc s i = CIdle -> c_closed s = false ->
      cstep s (mkC (cupd (c_pc s) i CInside) (c_closer s) (c_closed s) (S (c_count s)) (i :: c_inside s))
  | c_refuse : forall i, c_pc s i = CIdle -> c_closed s = true ->
      cstep s (mkC (cupd (c_pc s) i CRefused) (c_closer s) (c_closed s) (c_count s) (c_inside s))
  | c_leave : forall i, c_pc s i = CInside ->
      cstep s (mkC (cupd (c_pc s) i CLeft) (c_closer s) (c_closed s) (pred (c_count s))
                   (filter (fun k => negb (Nat.eqb k i)) (c_inside s)))
  | c_close : c_closer s = KStart ->
      cstep s (mkC (c_pc s) KWaiting true (c_count s) (c_inside s))
  | c_wait_done : c_closer s = KWaiting -> c_count s = 0 ->
      cstep s (mkC (c_pc s) KCleaning (c_closed s) (c_count s) (c_inside s))
  | c_clean : c_closer s = KCleaning ->
      cstep s (mkC (c_pc s) KDone (c_closed s) (c_count s) (c_inside s)).

  Inductive creach : cstate -> Prop :=
  | creach_init : creach (mkC (fun _ => CIdle) KStart false 0 [])
  | creach_step : forall s s', creach s -> cstep s s' -> creach s'.
End CloseModel.

(* 4d. concurrent readers.  The decrypted stream is consumed under the read-half mutex: a
   reader takes the mutex, removes some prefix of what is left and keeps it, releases.
   (That the real Read touches the input buffers only with `in` held is part of C13_lockset.) *)
Section ReadModel.
  Variable byte : Type.

  Record rstate := mkR { r_left : list byte;                 (* not yet delivered *)
                         r_lock : option nat;
                         r_log : list (nat * list byte) }.   (* deliveries in the order they happened *)

  Inductive rstep (s : rstate) : rstate -> Prop :=
  | r_acquire : forall i, r_lock s = None -> rstep s (mkR (r_left s) (Some i) (r_log s))
  | r_take : forall i pre rest, r_lock s = Some i -> r_left s = pre ++ rest ->
      rstep s (mkR rest (Some i) (r_log s ++ [(i, pre)]))
  | r_release : forall i, r_lock s = Some i -> rstep s (mkR (r_left s) None (r_log s)).

  Inductive rreach (stream : list byte) : rstate -> Prop :=
  | rreach_init : rreach stream (mkR stream None [])
  | rreach_step : forall s s', rreach stream s -> rstep s s' -> rreach stream s'.
End ReadModel.

(* ------------------------------------------------------------------ 5. the C13 instance *)

(* Unlocked BY DESIGN (each entry is an explicit premise of C13_lockset, see DESIGN.md C13):

   ExHandshakePhase.  Fields such as vers, config, cipherSuite, out.version, out.nextCipher,
     buffering, sendBuf, bytesSent ... are written by the thread that runs the handshake,
     inside handshakeContext with handshakeMutex and `in` held (checked: phase_rec_ok), but
     without `out`; Write / WriteTo / closeNotify read and write them holding only `out`.
     The two never overlap because the second kind of access happens only after its thread
     observed completion: Handshake() returned nil, or handshakeComplete() returned true
     (the translator emits Guard events for exactly these tests, and only for the patterns
     `if err := c.Handshake(); err != nil { return }`, `if c.handshakeComplete() { ... }`,
     `if !c.handshakeComplete() { return }`).  Completion is published by the atomic store of
     handshakeStatus / hsState at the very end of the handshake function and observed by an
     atomic load (or under handshakeMutex), and a completed handshake never runs again
     (handshakeContext returns on the first test).  The error path (flush after a failed
     handshake) excludes completion altogether.  What is NOT proved here: that Go's atomics
     and mutexes give the happens-before edge this argument uses (Go memory model).

   ExField "dtlcp" OConn "remoteAddr".  readDatagram (holding `in`) assigns remoteAddr only
     `if c.remoteAddr == nil`; dtlcp.Client / dtlcp.Server set it at construction whenever
     the caller passes an address, so the assignment is dead code for such connections and
     the unlocked reads in WriteTo / write / RemoteAddr race with nothing.  A connection
     built with a nil address would need the first datagram to arrive before any other
     goroutine looks at the field; that use is outside the claim. *)
Definition c13_exemptions : list exemption :=
  [ExHandshakePhase; ExField "dtlcp" OConn "remoteAddr"].

(* Fields that FAIL the discipline: reported as findings, proved to fail, not argued away. *)
Definition c13_findings : list finding := [].
(* F16 (Close zeroed workKey with no lock and no guard), F28 (PeerCertificates() read without
   handshakeMutex) and F17 (pa Read / Write / ProtectedConn read `wrapped` outside detect's mutex) were on
   this list until they were fixed in the library. *)
